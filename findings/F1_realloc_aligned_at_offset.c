#include <mimalloc.h>
#include <stdio.h>
#include <stdint.h>
int main(void){
  int bad=0;
  for (size_t off=1; off<16; off++) for (size_t al=2; al<=8; al*=2) {
    void* p = mi_malloc_aligned_at(8, al, off);
    if (((uintptr_t)p+off)%al) { printf("alloc misaligned al=%zu off=%zu\n",al,off); bad++; }
    void* q = mi_realloc_aligned_at(p, 1000, al, off);
    if (((uintptr_t)q+off)%al) { printf("realloc_aligned_at lost alignment: al=%zu off=%zu q=%p\n",al,off,q); bad++; }
    mi_free(q);
  }
  return bad?1:0;
}
