// Side observation (unchanged tree): chain zalloc -> rezalloc -> rezalloc exposes non-zero bytes.
#include <stdio.h>
#include <string.h>
#include <stdint.h>
#include <mimalloc.h>
int main(void){
  void* q[16]; for(int i=0;i<16;i++){ q[i]=mi_malloc(1000); memset(q[i],0xA5,mi_usable_size(q[i])); } for(int i=0;i<16;i++) mi_free(q[i]);
  uint8_t* p = mi_zalloc(100);
  p = mi_rezalloc(p, 900);          // moves into a dirty 1024-byte block, zeroes only [..,900)
  size_t us = mi_usable_size(p);
  p = mi_rezalloc(p, 1000);         // stays in place (1000 <= usable)
  for(size_t i=0;i<1000;i++) if(p[i]){ printf("unchanged tree: byte %zu = 0x%02x after zalloc(100)->rezalloc(900)->rezalloc(1000), usable=%zu\n", i,p[i],us); return 1; }
  printf("ok\n"); return 0; }
