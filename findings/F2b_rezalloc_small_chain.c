// zero-growth chain 0 -> 2 -> 8 (and over-aligned variant): the moved block's slack must be zero
#include <mimalloc.h>
#include <string.h>
#include <stdio.h>
int main(void) {
  int bad = 0;
  for (int round = 0; round < 100; round++) {
    // dirty some 8-byte blocks
    void* d[64]; for (int i = 0; i < 64; i++) { d[i] = mi_malloc(8); memset(d[i], 0xA5, 8); }
    for (int i = 0; i < 64; i++) mi_free(d[i]);
    unsigned char* p = (unsigned char*)mi_zalloc(0);
    void* keep = mi_malloc(8); (void)keep;
    p = (unsigned char*)mi_rezalloc(p, 2);
    p = (unsigned char*)mi_rezalloc(p, 8);
    for (int i = 0; i < 8; i++) if (p[i] != 0) { bad++; break; }
    mi_free(p);
  }
  if (bad) printf("rezalloc chain 0->2->8 exposed non-zero bytes in %d rounds\n", bad);
  return bad ? 1 : 0;
}
