// C11: memory obtained directly from the OS (huge blocks) must be unmapped again after free + forced collect.
#include <mimalloc.h>
#include <stdio.h>
#include <string.h>
static long vm_kib(void) { FILE* f = fopen("/proc/self/statm","r"); long pages=0; if (f) { if (fscanf(f,"%ld",&pages)!=1) pages=0; fclose(f);} return pages*4; }
int main(void) {
  mi_option_set(mi_option_disallow_arena_alloc, 1);       // let every segment come straight from the OS
  void* w = mi_malloc(100); mi_free(w); mi_collect(true);
  long before = vm_kib();
  for (int i = 0; i < 20; i++) {
    char* p = (char*)mi_malloc(256u*1024*1024);
    if (!p) return 2;
    p[0] = 1; p[256u*1024*1024-1] = 1;
    mi_free(p);
    mi_collect(true);
  }
  long after = vm_kib();
  printf("virtual size before %ld KiB after %ld KiB\n", before, after);
  return (after - before > 1024*1024) ? 1 : 0;    // > 1 GiB of address space still mapped after everything was freed
}
