// C18: with a positive purge delay, arena memory that has been unused for longer than the delay must be returned to
// the OS by ordinary later activity / a NON-forced mi_collect.
//  scenario 1 (F4a): one arena: free everything, wait past the expiry, non-forced collects  -> resident memory must drop
//  scenario 2 (F4b): two arenas whose purges expire at different times: a non-forced collect between the two expiries
//                    must not make the allocator forget the later one
#include <mimalloc.h>
#include <stdio.h>
#include <string.h>
#include <unistd.h>
#include <stdlib.h>
static long rss_kib(void) { FILE* f = fopen("/proc/self/statm","r"); long sz=0,res=0; if (f) { if (fscanf(f,"%ld %ld",&sz,&res)!=2) res=0; fclose(f);} return res*4; }
#define N 96
static void fill_and_free(mi_heap_t* h) {
  void* p[N];
  for (int i = 0; i < N; i++) { p[i] = mi_heap_malloc(h, 1024*1024); if (!p[i]) { printf("alloc failed\n"); exit(2); } memset(p[i], 1, 1024*1024); }
  for (int i = 0; i < N; i++) mi_free(p[i]);
}
int main(int argc, char** argv) {
  int scenario = (argc > 1 ? atoi(argv[1]) : 1);
  mi_option_set(mi_option_purge_delay, 20);        // 20ms * arena_purge_mult(10) = 200ms for arena blocks
  mi_option_set(mi_option_purge_decommits, 1);
  if (scenario == 1) {
    mi_arena_id_t a; if (mi_reserve_os_memory_ex(256u*1024*1024, false, false, true, &a) != 0) return 2;
    mi_heap_t* h = mi_heap_new_in_arena(a);
    long r0 = rss_kib();
    fill_and_free(h); mi_heap_collect(h, false);
    mi_heap_delete(h);
    long r1 = rss_kib();
    usleep(600*1000);
    for (int i = 0; i < 5; i++) { mi_collect(false); void* q = mi_malloc(100); mi_free(q); usleep(10*1000); }
    long r2 = rss_kib();
    printf("scenario 1: rss start %ld KiB, after free %ld KiB, after delay + non-forced collects %ld KiB\n", r0, r1, r2);
    return (r2 - r0 > 48*1024) ? 1 : 0;           // most of the 96 MiB must be gone
  } else {
    mi_arena_id_t a, b;
    if (mi_reserve_os_memory_ex(256u*1024*1024, false, false, true, &a) != 0) return 2;
    if (mi_reserve_os_memory_ex(256u*1024*1024, false, false, true, &b) != 0) return 2;
    mi_heap_t* ha = mi_heap_new_in_arena(a); mi_heap_t* hb = mi_heap_new_in_arena(b);
    long r0 = rss_kib();
    fill_and_free(ha); mi_heap_collect(ha, false); mi_heap_delete(ha);      // arena a: purge scheduled at t0 (+200ms)
    usleep(120*1000);
    fill_and_free(hb); mi_heap_collect(hb, false); mi_heap_delete(hb);      // arena b: scheduled ~120ms later
    usleep(130*1000);                                                        // now: a expired, b not yet
    mi_collect(false);
    usleep(500*1000);                                                        // b long expired
    for (int i = 0; i < 5; i++) { mi_collect(false); usleep(10*1000); }
    long r2 = rss_kib();
    printf("scenario 2: rss start %ld KiB, at the end %ld KiB\n", r0, r2);
    return (r2 - r0 > 48*1024) ? 1 : 0;
  }
}
