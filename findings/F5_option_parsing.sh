#!/bin/sh
# C20: malformed option values must leave the default in place.
#  F5a: MIMALLOC_PURGE_DELAY=E was accepted as "true" (substring of "1;TRUE;YES;ON")      -> expected default 10
#  F5b: MIMALLOC_ARENA_RESERVE=GiB (suffix without number) was accepted as 0              -> expected default 1048576 KiB
cat > /tmp/f5.c <<'EOC'
#include <mimalloc.h>
#include <stdio.h>
int main(void){ printf("%ld %ld\n", mi_option_get(mi_option_purge_delay), mi_option_get(mi_option_arena_reserve)); return 0; }
EOC
gcc -O1 -I${WT:-/repo}/include /tmp/f5.c ${WT:-/repo}/_build/libmimalloc.a -lpthread -o /tmp/f5 || exit 99
a=$(MIMALLOC_PURGE_DELAY=E /tmp/f5 | cut -d' ' -f1); b=$(MIMALLOC_ARENA_RESERVE=GiB /tmp/f5 | cut -d' ' -f2)
echo "purge_delay=$a arena_reserve=$b"
[ "$a" = "10" ] && [ "$b" = "1048576" ]
