// C15: memory of an exclusive arena must never be given to heaps that are not bound to it -- also not through adoption of
// abandoned memory.  A forced mi_collect on the main thread reclaims *all* abandoned segments (no suitability test).
#include <mimalloc.h>
#include <pthread.h>
#include <stdio.h>
#include <stdint.h>
static mi_arena_id_t arena;
static void* worker(void* arg) {
  mi_heap_t* h = mi_heap_new_in_arena(arena);
  for (int i = 0; i < 40; i++) { void* p = mi_heap_malloc(h, 64); if (p == NULL) break; }   // stay live; thread exits -> abandoned
  return NULL;
}
int main(void) {
  if (mi_reserve_os_memory_ex(128u*1024*1024, false, false, true /* exclusive */, &arena) != 0) return 2;
  size_t asize = 0; uint8_t* astart = (uint8_t*)mi_arena_area(arena, &asize);
  pthread_t t; pthread_create(&t, NULL, worker, NULL); pthread_join(t, NULL);
  int forced = 1;
  if (forced) mi_collect(true);                    // main thread, backing heap: reclaims every abandoned segment
  int inside = 0;
  for (int i = 0; i < 200000; i++) {
    uint8_t* q = (uint8_t*)mi_malloc(64);
    if (q >= astart && q < astart + asize) inside++;
  }
  printf("default-heap blocks inside the exclusive arena: %d\n", inside);
  return inside ? 1 : 0;
}
