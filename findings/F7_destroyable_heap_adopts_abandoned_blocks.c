// C10: mi_heap_destroy releases every block of that heap and nothing else.
// Blocks left behind by a terminated thread can be adopted (segment reclaim) by a destroyable heap of another thread.
#include <mimalloc.h>
#include <pthread.h>
#include <stdio.h>
#include <string.h>
static void* keep[200];
static void* worker(void* arg) { for (int i = 0; i < 200; i++) { keep[i] = mi_malloc(64); memset(keep[i], 0x5A, 64); } return NULL; }
int main(void) {
  pthread_t t; pthread_create(&t, NULL, worker, NULL); pthread_join(t, NULL);    // worker exits: its segment is abandoned with 200 live blocks
  mi_heap_t* h = mi_heap_new();
  int adopted = 0;
  for (int round = 0; round < 64 && !adopted; round++) {
    for (int i = 0; i < 40; i++) { void* q = mi_heap_malloc(h, 1024*1024); (void)q; }     // need fresh segments -> tries to reclaim abandoned ones
    for (int i = 0; i < 200; i++) if (mi_heap_contains_block(h, keep[i])) adopted++;
  }
  printf("blocks of the terminated thread now attributed to the destroyable heap: %d\n", adopted);
  mi_heap_destroy(h);                                         // must not touch the terminated thread's live blocks
  int bad = 0;
  for (int k = 0; k < 3000000; k++) { void* q = mi_malloc(64); memset(q, 0, 64); }
  for (int i = 0; i < 200; i++) { unsigned char* p = (unsigned char*)keep[i]; for (int j = 0; j < 64; j++) if (p[j] != 0x5A) { bad++; break; } }
  printf("live blocks of the terminated thread that lost their contents after mi_heap_destroy: %d\n", bad);
  return bad ? 1 : 0;
}
