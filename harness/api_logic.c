/* API-logic lemmas (C03, C04, C05, C06): the real wrappers of alloc.c / alloc-aligned.c / alloc-posix.c run
   symbolically; the layer below (block allocation core, free, usable-size lookup, page lookup) is replaced
   -- with goto-instrument --replace-calls, no source change -- by contract stubs over a small mock heap:

     _mi_heap_malloc_zero_ex -> stub_malloc_zero_ex   NULL for size > MI_MAX_ALLOC_SIZE (contract proved in the page
                                                      lemmas), NULL nondeterministically (OS refusal), else a fresh
                                                      16-aligned block of arbitrary usable size >= size, dirty unless zero
     _mi_page_malloc(_zeroed) -> stub_page_malloc*    pops the mock small page's free block (aligned fast path)
     mi_free                  -> stub_free            records; asserts the pointer belongs to a live block, freed once
     _mi_usable_size          -> stub_usable_size     usable size of the mock block, minus the interior offset; asserts
                                                      that an interior pointer is only queried when has_aligned is set
     _mi_ptr_page             -> stub_ptr_page        mock page of the block
*/
#include "verif.h"
#include "mimalloc.h"
#include "mimalloc/internal.h"
#include "mimalloc/prim.h"
#include <errno.h>
void* __builtin_assume_aligned(const void* p, size_t a, ...) { return (void*)p; }

#include "init.c"
#include "page.c"
#include "os.c"
#include "alloc.c"
#include "alloc-aligned.c"
#include "alloc-posix.c"

static int n_err; static int last_err;
void _mi_error_message(int err, const char* fmt, ...) { n_err++; last_err = err; }
void _mi_warning_message(const char* fmt, ...) { }
void _mi_verbose_message(const char* fmt, ...) { }
void _mi_trace_message(const char* fmt, ...) { }

/* ------------------------------------------------------------------ mock heap ---- */
/* bounds (overridable per obligation) */
#ifndef OLDCAP
#define OLDCAP 48      /* bytes of the old block */
#endif
#ifndef NEWCAP
#define NEWCAP 96      /* bytes available for the fresh block */
#endif
#ifndef MAXNEW
#define MAXNEW 40      /* largest new size */
#endif
#ifndef MAXALIGN
#define MAXALIGN 32
#endif
#ifndef MAXOFF
#define MAXOFF 24
#endif
static uint8_t OLDBUF[OLDCAP] __attribute__((aligned(64)));
static uint8_t NEWBUF[NEWCAP] __attribute__((aligned(64)));
static mi_page_t PG_OLD, PG_NEW, PG_SMALL;
static mi_heap_t HEAP;

static uint8_t* old_start;  static size_t old_usable;  static bool old_live;     /* the block the program holds */
static uint8_t* new_start;  static size_t new_usable;  static bool new_live;     /* the block the core hands out */
static int n_malloc, n_free, n_free_old, n_free_new, n_bad;
static size_t core_size; static bool malloc_zero; static size_t malloc_huge_align;
static bool core_may_succeed = true;      /* false: core always refuses (used where only the request matters) */
/* CORE_VIRTUAL: blocks of arbitrary size, never dereferenced (address arithmetic only) */
#if defined(HARNESS_h_aligned)
#define CORE_VIRTUAL 1
struct bigobj { uint8_t b[1]; uint8_t rest[MI_SEGMENT_SIZE]; };
static struct bigobj BIG __attribute__((aligned(64)));
#else
#define CORE_VIRTUAL 0
#endif

static void mock_init(void) {
  for (size_t i = 0; i < MI_PAGES_DIRECT; i++) HEAP.pages_free_direct[i] = &PG_SMALL;
  _mi_heap_default = &HEAP;
}

static void* core_new_block(size_t size, bool zero) {
  if (size > MI_MAX_ALLOC_SIZE) return NULL;       /* contract: mi_find_page rejects these (C06 page lemma) */
  if (!core_may_succeed || nd_bool()) return NULL;  /* the OS may refuse */
  CHECK(!new_live, "mock: only one fresh block per call is modelled");
#if CORE_VIRTUAL
  {
    size_t d = (size_t)nd_u32() & 0xFFFFF0;          /* any 16-aligned position */
    if (size <= MI_MEDIUM_OBJ_SIZE_MAX) {
      /* contract (C16.good_size, C16.page_start): served from its size class: usable = class size, address a multiple of the
         class size's power-of-two part */
      const size_t bs = mi_good_size(size);
      new_usable = bs - MI_PADDING_SIZE;
      ASSUME(d % (bs & (~bs + 1)) == 0);
    } else {
      new_usable = nd_size();
      ASSUME(new_usable >= size && new_usable % 8 == 0 && new_usable <= MI_SEGMENT_SIZE - 0x1000000);
    }
    new_start = (uint8_t*)&BIG + d;
  }
#else
  {
    size_t d = (size_t)(nd_u8() & 0x18);             /* 0, 8, 16 or 24: block position in its page is arbitrary (a multiple of the class size's power-of-two part, see below: blocks of the 8-byte class are only 8-aligned) */
    /* contract (C16.good_size, C16.page_start): a small/medium request is served from its size class: usable size is the
       class size and the block address is a multiple of the class size's power-of-two part */
    const size_t bs = mi_good_size(size);
    new_usable = bs - MI_PADDING_SIZE;
    ASSUME(d + bs <= NEWCAP);
    ASSUME(d % (bs & (~bs + 1)) == 0);
    new_start = NEWBUF + d;
    for (size_t i = 0; i < NEWCAP; i++) NEWBUF[i] = nd_u8();                    /* dirty memory */
    if (zero) { for (size_t i = 0; i < new_usable; i++) new_start[i] = 0; }      /* contract: whole block zeroed (C04 page lemma) */
  }
#endif
  new_live = true;
  PG_NEW.flags.full_aligned = 0;
  return new_start;
}

void* stub_malloc_zero_ex(mi_heap_t* heap, size_t size, bool zero, size_t huge_alignment) {
  n_malloc++; core_size = size; malloc_zero = zero; malloc_huge_align = huge_alignment;
  CHECK(heap == &HEAP, "core called with the caller's heap");
  if (huge_alignment != 0) {
    /* contract of the huge path (C03 segment lemma): block start aligned to huge_alignment; modelled for address arithmetic only */
    if (size > MI_MAX_ALLOC_SIZE || !core_may_succeed || nd_bool()) return NULL;
#if CORE_VIRTUAL
    new_usable = nd_size(); ASSUME(new_usable >= size && new_usable <= MI_SEGMENT_SIZE);
    new_start = (uint8_t*)&BIG;      /* object base: aligned to every power of two < 2^56 in CBMC's address model */
    new_live = true; PG_NEW.flags.full_aligned = 0;
    return new_start;
#else
    ASSUME(false);                    /* huge alignment only in the address-arithmetic harness */
    return NULL;
#endif
  }
  return core_new_block(size, zero);
}
static void* stub_page_malloc_x(mi_heap_t* heap, mi_page_t* page, size_t size, bool zero) {
  n_malloc++; core_size = size; malloc_zero = zero; malloc_huge_align = 0;
  CHECK(page == &PG_SMALL && page->free != NULL, "fast path pops an existing free block");
  void* p = page->free; page->free = NULL;
  new_live = true; PG_NEW.flags.full_aligned = 0;
#if !CORE_VIRTUAL
  if (zero) { for (size_t i = 0; i < new_usable; i++) new_start[i] = 0; }
#endif
  return p;
}
void* stub_page_malloc(mi_heap_t* heap, mi_page_t* page, size_t size) { return stub_page_malloc_x(heap, page, size, false); }
void* stub_page_malloc_zeroed(mi_heap_t* heap, mi_page_t* page, size_t size) { return stub_page_malloc_x(heap, page, size, true); }

static bool in_old(const void* p) { return old_start != NULL && (uintptr_t)p >= (uintptr_t)old_start && (uintptr_t)p - (uintptr_t)old_start <= old_usable; }
static bool in_new(const void* p) { return new_start != NULL && (uintptr_t)p >= (uintptr_t)new_start && (uintptr_t)p - (uintptr_t)new_start <= new_usable; }

void stub_free(void* p) {
  if (p == NULL) return;
  n_free++;
  if (in_old(p)) { CHECK(old_live, "old block freed while live (no double free)"); old_live = false; n_free_old++;
                   if ((uint8_t*)p != old_start) CHECK(PG_OLD.flags.x.has_aligned, "interior pointer freed only with has_aligned"); }
  else if (in_new(p)) { CHECK(new_live, "new block freed while live"); new_live = false; n_free_new++;
                   if ((uint8_t*)p != new_start) CHECK(PG_NEW.flags.x.has_aligned, "interior pointer freed only with has_aligned"); }
  else { n_bad++; CHECK(false, "free of a pointer that is no block of the mock heap"); }
}
size_t stub_usable_size(const void* p, const char* msg) {
  if (p == NULL) return 0;
  if (in_old(p)) { CHECK(old_live, "usable size of a live block");
                   if ((uint8_t*)p != old_start) CHECK(PG_OLD.flags.x.has_aligned, "interior pointer queried only with has_aligned");
                   return old_usable - (size_t)((const uint8_t*)p - old_start); }
  if (in_new(p)) { CHECK(new_live, "usable size of a live block");
                   if ((uint8_t*)p != new_start) CHECK(PG_NEW.flags.x.has_aligned, "interior pointer queried only with has_aligned");
                   return new_usable - (size_t)((const uint8_t*)p - new_start); }
  CHECK(false, "usable size of a pointer that is no block of the mock heap");
  return 0;
}
mi_page_t* stub_ptr_page(void* p) {
  if (in_old(p)) return &PG_OLD;
  CHECK(in_new(p), "page lookup of a mock block");
  return &PG_NEW;
}

/* the program's existing block: arbitrary usable size, optionally an interior (over-aligned) pointer */
static uint8_t* make_old(size_t* requested, int allow_interior) {
  size_t adj = 0;
  if (allow_interior == 1) { adj = (size_t)(nd_u8() & 0x18); }           /* 0..24 step 8 */
  if (allow_interior == 2) { adj = (size_t)(nd_u8() & 0x1F); }           /* 0..31: aligned_at pointers may sit at any byte offset */
  old_usable = nd_size();
  ASSUME(old_usable % 8 == 0 && old_usable >= 8 && old_usable <= OLDCAP && adj < old_usable);
  old_start = OLDBUF; old_live = true;
  PG_OLD.flags.full_aligned = 0;
  if (adj != 0) PG_OLD.flags.x.has_aligned = 1;
  for (size_t i = 0; i < OLDCAP; i++) OLDBUF[i] = nd_u8();
  size_t req = nd_size(); ASSUME(req <= old_usable - adj);
  *requested = req;
  return old_start + adj;
}

/* ================================================================== C05 / C04: realloc family ==== */
#if defined(HARNESS_h_realloc) || defined(HARNESS_h_realloc_aligned)
/* VARIANT: 0 realloc, 1 rezalloc, 2 reallocf, 3 reallocn, 4 recalloc, 5 reallocarray, 6 reallocarr
            aligned: 0 realloc_aligned 1 rezalloc_aligned 2 realloc_aligned_at 3 rezalloc_aligned_at 4 recalloc_aligned 5 recalloc_aligned_at */
#ifndef VARIANT
#define VARIANT 0
#endif
static void realloc_common(bool aligned) {
  mock_init();
  size_t req0;
  bool have_old = nd_bool();
  uint8_t* p = have_old ? make_old(&req0, aligned ? 2 : 1) : NULL;
  if (!have_old) req0 = 0;
  size_t p_usable = have_old ? (size_t)(old_usable - (size_t)(p - old_start)) : 0;
  uint8_t snap[OLDCAP];
  for (size_t i = 0; i < OLDCAP; i++) snap[i] = (have_old && i < p_usable) ? p[i] : 0;
  bool zero = false, is_f = false;
  size_t newsize = nd_size();
  size_t alignment = 0, offset = 0;
  void* r = NULL; int rc = 0;
  bool overflowed = false;
  errno = 0;
#ifdef ZERO_PREMISE
  /* C04 induction premise: the block came from a zeroing allocation: bytes [requested, usable) are zero */
  if (have_old) { for (size_t i = req0; i < p_usable; i++) ASSUME(p[i] == 0); }
#endif
  if (!aligned) {
    ASSUME(newsize <= MAXNEW);
#if VARIANT == 0
    r = mi_realloc(p, newsize);
#elif VARIANT == 1
    zero = true; r = mi_rezalloc(p, newsize);
#elif VARIANT == 2
    is_f = true; r = mi_reallocf(p, newsize);
#elif VARIANT == 3 || VARIANT == 4 || VARIANT == 5 || VARIANT == 6
    size_t count = nd_size(), size = nd_size();
    ASSUME(count <= MAXNEW && size <= MAXNEW && count * size == newsize);
    #if VARIANT == 3
    r = mi_reallocn(p, count, size);
    #elif VARIANT == 4
    zero = true; r = mi_recalloc(p, count, size);
    #elif VARIANT == 5
    r = mi_reallocarray(p, count, size);
    if (r == NULL) CHECK(errno == ENOMEM, "reallocarray sets ENOMEM on failure");
    #else
    void* slot = p;
    rc = mi_reallocarr(&slot, count, size);
    r = (rc == 0 ? slot : NULL);
    if (rc != 0) { CHECK(slot == p, "reallocarr leaves the slot on failure"); CHECK(rc == ENOMEM, "reallocarr returns the error"); }
    #endif
#endif
  } else {
    ASSUME(newsize <= MAXNEW);
    alignment = (size_t)1 << (nd_u8() & 7);     /* 1..128 */
    ASSUME(alignment <= MAXALIGN);
#if VARIANT == 0 || VARIANT == 1 || VARIANT == 4
    if (have_old) ASSUME(((uintptr_t)p % alignment) == 0);    /* precondition: the block was allocated with this alignment */
#endif
#if VARIANT == 0
    r = mi_realloc_aligned(p, newsize, alignment);
    offset = (p == NULL ? 0 : ((uintptr_t)p % alignment));
#elif VARIANT == 1
    zero = true; r = mi_rezalloc_aligned(p, newsize, alignment);
    offset = (p == NULL ? 0 : ((uintptr_t)p % alignment));
#elif VARIANT == 2 || VARIANT == 3
    offset = nd_size(); ASSUME(offset <= MAXOFF);
    if (have_old) ASSUME((((uintptr_t)p + offset) % alignment) == 0);   /* precondition: the block was allocated with this alignment/offset */
    #if VARIANT == 2
    r = mi_realloc_aligned_at(p, newsize, alignment, offset);
    #else
    zero = true; r = mi_rezalloc_aligned_at(p, newsize, alignment, offset);
    #endif
#else
    size_t count = nd_size(), size = nd_size();
    ASSUME(count <= MAXNEW && size <= MAXNEW && count * size == newsize);
    zero = true;
    #if VARIANT == 5
    offset = nd_size(); ASSUME(offset <= MAXOFF);
    if (have_old) ASSUME((((uintptr_t)p + offset) % alignment) == 0);
    #endif
    #if VARIANT == 4
    r = mi_recalloc_aligned(p, count, size, alignment);
    offset = (p == NULL ? 0 : ((uintptr_t)p % alignment));
    #else
    r = mi_recalloc_aligned_at(p, count, size, alignment, offset);
    #endif
#endif
  }
  (void)overflowed;
  /* ---- oracle (C05) ---- */
  if (r == NULL) {
    WITNESS("failure");
    CHECK(n_free_new == 0 || !new_live, "nothing handed out on failure");
    if (is_f) { if (have_old) CHECK(!old_live && n_free_old == 1, "reallocf frees the block exactly once on failure"); }
    else if (have_old) {
      CHECK(old_live && n_free_old == 0, "failed realloc leaves the old block live (not freed)");
      for (size_t i = 0; i < OLDCAP; i++) { if (i < p_usable) CHECK(p[i] == snap[i], "failed realloc leaves the old contents untouched"); }
    }
  } else {
    uint8_t* q = (uint8_t*)r;
    bool moved = (q != p);
    size_t q_usable;
    if (moved) {
      WITNESS("moved");
      CHECK(in_new(q) && new_live, "result is the freshly allocated block");
      q_usable = new_usable - (size_t)(q - new_start);
      if (q != new_start) CHECK(PG_NEW.flags.x.has_aligned, "interior result marks its page has_aligned");
      if (have_old) CHECK(!old_live && n_free_old == 1, "old block released exactly once when a different pointer is returned");
      CHECK(n_free_new == 0, "the returned block is not freed");
    } else {
      WITNESS("in place");
      CHECK(have_old, "NULL input never returns NULL-as-success");
      CHECK(old_live && n_free == 0 && n_malloc == 0 || (old_live && n_free_old == 0 && !new_live), "in place: old block kept, nothing else live");
      q_usable = p_usable;
    }
    CHECK(q_usable >= newsize, "result usable size >= new size");
    size_t keep = (req0 < newsize ? req0 : newsize);
    for (size_t i = 0; i < OLDCAP; i++) { if (i < keep) CHECK(q[i] == snap[i], "first min(old,new) bytes preserved"); }
    if (aligned && alignment > 1) CHECK((((uintptr_t)q + offset) % alignment) == 0, "re-allocation keeps (p+offset) aligned");
    if (!have_old) CHECK(n_malloc >= 1 && n_free == 0, "NULL input behaves as an allocation");
    if (newsize == 0) CHECK(q != NULL, "zero size yields a valid block");
#ifdef ZERO_PREMISE
    /* ---- C04: growth of a zero-initialised block ---- */
    if (zero && newsize >= req0) {
      for (size_t i = 0; i < NEWCAP; i++) { if (i >= req0 && i < newsize) CHECK(q[i] == 0, "bytes between old and new requested size read as zero"); }
      for (size_t i = 0; i < NEWCAP; i++) { if (i >= newsize && i < q_usable) CHECK(q[i] == 0, "induction: bytes [new size, usable) are zero again (so the next growth is zero too)"); }
      WITNESS("zero growth");
    }
#endif
  }
}
#ifdef HARNESS_h_realloc
void h_realloc(void) { realloc_common(false); }
#else
void h_realloc_aligned(void) { realloc_common(true); }
#endif
#endif

#ifdef HARNESS_h_expand
void h_expand(void) {
  mock_init();
  size_t req0; uint8_t* p = make_old(&req0, true);
  size_t us = old_usable - (size_t)(p - old_start);
  size_t n = nd_size();
  errno = 0;
#ifdef VARIANT
  void* r = mi__expand(p, n);
  if (r == NULL) CHECK(errno == ENOMEM, "_expand sets ENOMEM");
#else
  void* r = mi_expand(p, n);
#endif
  CHECK(r == NULL || r == p, "mi_expand never moves a block");
  CHECK(n_free == 0 && n_malloc == 0 && old_live, "mi_expand neither allocates nor frees");
#if MI_PADDING
  CHECK(r == NULL, "padding builds: expand is documented to fail");
#else
  CHECK((r == p) == (n <= us), "mi_expand succeeds exactly up to the usable size");
  CHECK(mi_expand(NULL, n) == NULL, "mi_expand(NULL) is NULL");
#endif
  WITNESS("end");
}
#endif

/* ================================================================== C06: malformed requests ==== */
#ifdef HARNESS_h_overflow
static int mul_called; static bool mul_ovf; static size_t mul_total;
bool stub_mul_overflow(size_t count, size_t size, size_t* total) {
  mul_called++; mul_total = nd_size(); mul_ovf = nd_bool(); *total = mul_total; return mul_ovf;
}
/* counting entry points: on count*size overflow -> NULL, no call into the core, no free, old block untouched;
   otherwise the core is called with exactly count*size */
#ifndef VARIANT
#define VARIANT 0
#endif
void h_overflow(void) {
  mock_init();
  core_may_succeed = false;            /* only the request reaching the core matters here */
  size_t count = nd_size(), size = nd_size();
  size_t req0; uint8_t* p = nd_bool() ? make_old(&req0, false) : NULL;
  /* the multiplier itself is abstracted (stub_mul_overflow: arbitrary verdict and product, recorded) so that this
     obligation decides the wrapper logic for both outcomes; mi_mul_overflow == 128-bit product is h_mul_overflow */
  unsigned long total_ref = 0;
  bool ovf = false;
  size_t alignment = (size_t)1 << (nd_u8() & 63), offset = nd_size();
  void* r; errno = 0; int rc = 0; void* slot = p;
  bool is_re = false;
  switch (VARIANT) {
    case 0: r = mi_calloc(count, size); break;
    case 1: r = mi_mallocn(count, size); break;
    case 2: r = mi_reallocn(p, count, size); is_re = true; break;
    case 3: r = mi_recalloc(p, count, size); is_re = true; break;
    case 4: r = mi_calloc_aligned(count, size, alignment); break;
    case 5: r = mi_calloc_aligned_at(count, size, alignment, offset); break;
    case 6: r = mi_recalloc_aligned(p, count, size, alignment); is_re = true; break;
    case 7: r = mi_recalloc_aligned_at(p, count, size, alignment, offset); is_re = true; break;
    case 8: r = mi_reallocarray(p, count, size); is_re = true; break;
    case 9: rc = mi_reallocarr(&slot, count, size); r = NULL; is_re = true; break;
    case 10: r = mi_heap_calloc(&HEAP, count, size); break;
    case 11: r = mi_heap_mallocn(&HEAP, count, size); break;
    case 12: r = mi_heap_reallocn(&HEAP, p, count, size); is_re = true; break;
    case 13: r = mi_heap_recalloc(&HEAP, p, count, size); is_re = true; break;
    case 14: r = mi_heap_calloc_aligned(&HEAP, count, size, alignment); break;
    case 15: r = mi_heap_calloc_aligned_at(&HEAP, count, size, alignment, offset); break;
    case 16: r = mi_heap_recalloc_aligned(&HEAP, p, count, size, alignment); is_re = true; break;
    default: r = mi_heap_recalloc_aligned_at(&HEAP, p, count, size, alignment, offset); is_re = true; break;
  }
  if (count == 1) { ovf = false; total_ref = size; CHECK(mul_called == 0 || VARIANT >= 0, "count==1 shortcut"); }
  else { CHECK(mul_called >= 1 || n_malloc == 0, "the product is computed with the overflow-checked multiply"); ovf = (mul_called > 0 && mul_ovf); total_ref = mul_total; ASSUME(mul_called > 0); }
  if (ovf) {
    WITNESS("overflow");
    CHECK(r == NULL, "count*size overflow returns NULL");
    CHECK(n_malloc == 0, "overflowing request never reaches the allocation core");
    CHECK(n_free == 0 && (p == NULL || old_live), "overflowing request frees nothing (block being re-allocated untouched)");
    if (VARIANT == 8) CHECK(errno == ENOMEM, "reallocarray sets errno on overflow");
    if (VARIANT == 9) { CHECK(rc != 0 && slot == p, "reallocarr reports overflow and leaves the slot"); }
  } else {
    WITNESS("no overflow");
    size_t total = (size_t)total_ref;
    CHECK(r == NULL || (is_re && r == p), "core refuses in this harness (only an in-place re-allocation can succeed)");
    if (n_malloc > 0) {
      /* the request that reached the core covers count*size bytes (aligned variants may over-allocate) */
      CHECK(core_size >= total || total > MI_MAX_ALLOC_SIZE, "the core is asked for at least count*size bytes");
      if (VARIANT <= 3 || (VARIANT >= 8 && VARIANT <= 13)) CHECK(core_size == total, "plain counting wrappers pass exactly count*size");
    } else {
      /* no allocation attempt is only allowed for in-place realloc, invalid size/alignment */
      CHECK(is_re || total > MI_MAX_ALLOC_SIZE - MI_PADDING_SIZE || VARIANT == 5 || VARIANT == 7 || VARIANT == 15 || VARIANT == 17 || alignment > MI_BLOCK_ALIGNMENT_MAX,
            "a well-formed request reaches the core");
    }
    CHECK(n_free == 0 && (p == NULL || old_live), "failed request frees nothing");
  }
}
#endif

#ifdef HARNESS_h_badalign
/* alignment 0 or not a power of two, or size above the maximum: NULL/EINVAL, no effect */
#ifndef VARIANT
#define VARIANT 0
#endif
void h_badalign(void) {
  mock_init();
  size_t size = nd_size(), alignment = nd_size(), offset = nd_size();
  bool pow2 = (alignment != 0) && ((alignment & (alignment - 1)) == 0);
  bool toobig = size > MI_MAX_ALLOC_SIZE;
  size_t req0; uint8_t* p = nd_bool() ? make_old(&req0, false) : NULL;
  void* r = NULL; void* out = (void*)OLDBUF; int rc = 0;
  errno = 0;
  switch (VARIANT) {
    case 0: r = mi_malloc_aligned(size, alignment); break;
    case 1: r = mi_malloc_aligned_at(size, alignment, offset); break;
    case 2: r = mi_zalloc_aligned(size, alignment); break;
    case 3: r = mi_zalloc_aligned_at(size, alignment, offset); break;
    case 4: r = mi_memalign(alignment, size); break;
    case 5: r = mi_aligned_alloc(alignment, size); break;
    case 6: rc = mi_posix_memalign(&out, alignment, size); break;
    case 7: r = mi_heap_malloc_aligned(&HEAP, size, alignment); break;
    case 8: r = mi_heap_zalloc_aligned_at(&HEAP, size, alignment, offset); break;
    case 9: ASSUME(p != NULL && alignment > sizeof(void*)); r = mi_realloc_aligned_at(p, size, alignment, offset); break;
    case 10: ASSUME(p != NULL && alignment > sizeof(void*)); r = mi_rezalloc_aligned(p, size, alignment); break;
    case 11: r = mi_pvalloc(size); alignment = 4096; pow2 = true; break;
    case 12: r = mi_valloc(size); alignment = 4096; pow2 = true; break;
    default: r = mi_new_aligned_nothrow(size, alignment); break;
  }
#if VARIANT == 6
  {
    if (!pow2 || alignment % sizeof(void*) != 0) {
      CHECK(rc == EINVAL, "posix_memalign: bad alignment -> EINVAL"); CHECK(out == (void*)OLDBUF, "posix_memalign leaves *p unmodified on error");
      CHECK(n_malloc == 0 && n_free == 0, "posix_memalign: bad alignment has no effect");
      WITNESS("bad");
    } else if (rc != 0) {
      CHECK(rc == ENOMEM, "posix_memalign: only ENOMEM otherwise"); CHECK(out == (void*)OLDBUF, "posix_memalign leaves *p unmodified on ENOMEM");
      CHECK(!new_live, "nothing stays allocated on ENOMEM");
      WITNESS("nomem");
    } else {
      CHECK(out != (void*)OLDBUF && (out != NULL || size == 0), "posix_memalign success stores the block");
      if (out != NULL) CHECK(((uintptr_t)out % alignment) == 0, "posix_memalign result aligned");
      CHECK(!toobig, "oversized posix_memalign cannot succeed");
      WITNESS("ok");
    }
    return;
  }
#else
  if (!pow2 || toobig) {
    WITNESS("bad");
    /* a re-allocation that already fits in place may return the block itself: no effect on the heap */
    CHECK(r == NULL || ((VARIANT == 9 || VARIANT == 10) && r == p && n_malloc == 0), "invalid alignment / oversized request returns NULL");
    if (!pow2) CHECK(n_malloc == 0, "invalid alignment never reaches the core");
    CHECK(!new_live, "nothing stays allocated");
    CHECK(n_free == 0 && (p == NULL || old_live), "invalid request frees nothing (old block untouched)");
  } else {
    WITNESS("good");
    if (r != NULL && r != p) {
      CHECK(new_live && in_new(r), "result is a live block");
      if (VARIANT != 1 && VARIANT != 3 && VARIANT != 8 && VARIANT != 9) offset = (VARIANT == 10 ? ((uintptr_t)p % alignment) : 0);
      CHECK((((uintptr_t)r + offset) % alignment) == 0, "result (p+offset) aligned");
      CHECK(new_usable - (size_t)((uint8_t*)r - new_start) >= size, "usable size >= size");
    }
  }
#endif
}
#endif

#ifdef HARNESS_h_mul_overflow
/* the portable fallback of mi_mul_overflow (used when the compiler builtin is missing) against a 128-bit product;
   the builtin variant is the compiler's and is taken as reference in h_overflow */
static inline bool mi_mul_overflow_generic(size_t count, size_t size, size_t* total) {
  #define MI_MUL_COULD_OVERFLOW_X ((size_t)1 << (4*sizeof(size_t)))
  *total = count * size;
  return ((size >= MI_MUL_COULD_OVERFLOW_X || count >= MI_MUL_COULD_OVERFLOW_X) && size > 0 && (SIZE_MAX / size) < count);
}
void h_mul_overflow(void) {
  size_t count = nd_size(), size = nd_size(), t1 = 0, t2 = 0;
  unsigned __int128 wide = (unsigned __int128)count * size;
  bool o = mi_mul_overflow(count, size, &t1);
  CHECK(o == ((wide >> 64) != 0), "mi_mul_overflow reports overflow exactly when the product needs more than 64 bits");
  CHECK(t1 == (size_t)wide, "mi_mul_overflow stores the truncated product");
  bool c = mi_count_size_overflow(count, size, &t2);
  CHECK(c == ((wide >> 64) != 0), "mi_count_size_overflow agrees");
  if (!c) CHECK(t2 == (size_t)wide, "mi_count_size_overflow stores the product");
  WITNESS("end");
}
#endif

/* ================================================================== C03: aligned allocation ==== */
#ifdef HARNESS_h_aligned
/* every (size, alignment, offset), every state of the small page's free block (absent / aligned / misaligned):
   (p+offset) % alignment == 0, usable(p) >= size, interior pointer => has_aligned, p inside the block */
void h_aligned(void) {
  mock_init();
  size_t size = nd_size(), offset = nd_size();
  size_t alignment = (size_t)1 << (nd_u8() & 63);
  bool zero = false;   /* contents are covered by h_aligned_zero on small sizes */
  ASSUME(size <= MI_SEGMENT_SIZE / 4 && alignment <= (((size_t)1) << 40));
  /* prior heap state: the small page may hold a free block at any 8-aligned address */
  if (nd_bool()) {
    size_t d = (size_t)nd_u32() & 0xFFFFF8;
    new_start = (uint8_t*)&BIG + d;
    new_usable = nd_size(); ASSUME(new_usable % 8 == 0 && new_usable >= size && new_usable <= MI_SMALL_SIZE_MAX && (size > 8 ? d % 16 == 0 : true));
    PG_SMALL.free = (mi_block_t*)new_start;
  }
  void* r = nd_bool() ? mi_malloc_aligned_at(size, alignment, offset) : mi_heap_malloc_aligned_at(&HEAP, size, alignment, offset);
  if (r != NULL) {
    uint8_t* q = (uint8_t*)r;
    CHECK(new_live && q >= new_start, "result lies in the block handed out by the core");
    size_t adj = (size_t)(q - new_start);
    CHECK((((uintptr_t)q + offset) & (alignment - 1)) == 0, "(p+offset) is a multiple of the alignment");
    CHECK(adj < alignment, "adjustment smaller than the alignment");
    CHECK(adj <= new_usable && new_usable - adj >= size, "usable size from the aligned pointer >= size");
    if (adj != 0) { CHECK(PG_NEW.flags.x.has_aligned, "interior pointer marks the page has_aligned"); WITNESS("interior"); }
    if (n_malloc == 1 && malloc_huge_align != 0) { CHECK(offset == 0 && alignment > MI_BLOCK_ALIGNMENT_MAX, "huge path only for huge alignment without offset"); WITNESS("huge alignment"); }
    CHECK(n_malloc == 1 && n_free == 0, "exactly one block allocated, none freed");
    WITNESS("success");
  } else {
    CHECK(!new_live || PG_SMALL.free != NULL, "failure leaves nothing allocated");
    if (alignment > MI_BLOCK_ALIGNMENT_MAX && offset != 0) WITNESS("huge alignment with offset refused");
  }
}
#endif

#ifdef HARNESS_h_aligned_zero
/* zeroing aligned allocation on small sizes: all `size` bytes (indeed the whole usable part) read zero */
void h_aligned_zero(void) {
  mock_init();
  size_t size = nd_size(), offset = nd_size();
  size_t alignment = (size_t)1 << (nd_u8() & 7);
  ASSUME(size <= 40 && alignment <= 64 && offset <= 64);
  void* r;
  switch (nd_u8() & 3) {
    case 0: r = mi_zalloc_aligned_at(size, alignment, offset); break;
    case 1: r = mi_zalloc_aligned(size, alignment); offset = 0; break;
    case 2: { size_t c = nd_size(), s = nd_size(); ASSUME(c <= 40 && s <= 40 && c * s == size); r = mi_calloc_aligned_at(c, s, alignment, offset); break; }
    default: r = mi_heap_zalloc_aligned_at(&HEAP, size, alignment, offset); break;
  }
  if (r != NULL) {
    uint8_t* q = (uint8_t*)r;
    CHECK(in_new(q) && new_live, "result is the fresh block");
    /* (how the zeroes get there -- asking the core for zeroed memory or clearing afterwards -- is the implementation's choice) */
    size_t us = new_usable - (size_t)(q - new_start);
    CHECK(us >= size, "usable >= size");
    for (size_t i = 0; i < NEWCAP; i++) { if (i < us) CHECK(q[i] == 0, "zeroing aligned allocation reads zero over its whole usable size"); }
    CHECK((((uintptr_t)q + offset) % alignment) == 0, "aligned");
    WITNESS("success");
  }
}
#endif

#ifdef HARNESS_h_natural
/* the natural-alignment shortcut is sound: whenever mi_malloc_is_naturally_aligned(size,a) holds, every block of the
   class that serves `size` is a-aligned: the class size is a multiple of a and <= MI_MAX_ALIGN_GUARANTEE (page starts
   are block-size aligned for those classes: C16.page_start) or a <= 16 */
void h_natural(void) {
  size_t size = nd_size();
  size_t alignment = (size_t)1 << (nd_u8() & 63);
  ASSUME(size <= MI_MAX_ALLOC_SIZE);
  if (mi_malloc_is_naturally_aligned(size, alignment)) {
    CHECK(alignment <= size, "never natural for alignment > size");
    if (alignment > MI_MAX_ALIGN_SIZE) {
      size_t bs = mi_good_size(size);
      CHECK(bs <= MI_MAX_ALIGN_GUARANTEE, "class within the alignment guarantee");
      CHECK(bs % alignment == 0, "class size is a multiple of the alignment");
      CHECK(size <= MI_MEDIUM_OBJ_SIZE_MAX && bs == _mi_bin_size(mi_bin(size + MI_PADDING_SIZE)), "bs is the block size of the serving class");
      WITNESS("natural > 16");
    }
  }
  WITNESS("end");
}
#endif

#ifdef HARNESS_h_override
/* C19: the platform entry points defined by the override (alloc-override.c, compiled with -DMI_MALLOC_OVERRIDE) are
   served by the mimalloc core: each call reaches the mock core / free / usable-size exactly as its mi_ counterpart.
   A missing override shows up as a call without body.  GROUP selects a family. */
#include <stdlib.h>
#include <malloc.h>
static bool abort_allowed;
void abort(void) { CHECK(abort_allowed, "C19: only the throwing forms of operator new may abort on failure (plain C build)"); ASSUME(false); }
typedef struct mi_nothrow_s2 { int _tag; } nt_t;
void* _Znwm(size_t n); void* _Znam(size_t n); void* _ZnwmRKSt9nothrow_t(size_t n, mi_nothrow_t tag); void* _ZnamRKSt9nothrow_t(size_t n, mi_nothrow_t tag);
void* _ZnwmSt11align_val_t(size_t n, size_t al); void* _ZnamSt11align_val_t(size_t n, size_t al);
void* _ZnwmSt11align_val_tRKSt9nothrow_t(size_t n, size_t al, mi_nothrow_t tag); void* _ZnamSt11align_val_tRKSt9nothrow_t(size_t n, size_t al, mi_nothrow_t tag);
void _ZdlPv(void* p); void _ZdaPv(void* p); void _ZdlPvm(void* p, size_t n); void _ZdaPvm(void* p, size_t n);
void _ZdlPvSt11align_val_t(void* p, size_t al); void _ZdaPvSt11align_val_t(void* p, size_t al); void _ZdlPvmSt11align_val_t(void* p, size_t n, size_t al); void _ZdaPvmSt11align_val_t(void* p, size_t n, size_t al);
void _ZdlPvRKSt9nothrow_t(void* p, mi_nothrow_t tag); void _ZdaPvRKSt9nothrow_t(void* p, mi_nothrow_t tag);
void* __libc_malloc(size_t); void* __libc_calloc(size_t, size_t); void* __libc_realloc(void*, size_t); void __libc_free(void*); void __libc_cfree(void*);
void* __libc_valloc(size_t); void* __libc_pvalloc(size_t); void* __libc_memalign(size_t, size_t); int __posix_memalign(void**, size_t, size_t);
void* reallocf(void*, size_t); size_t malloc_size(const void*); void vfree(void*); size_t malloc_good_size(size_t); void cfree(void*);
void* _aligned_malloc(size_t, size_t); int reallocarr(void*, size_t, size_t);
#ifndef GROUP
#define GROUP 0
#endif
static void served_alloc(void* r, size_t size, bool zero, const char* dummy) {
  CHECK(n_malloc == 1 && core_size == size && malloc_zero == zero, "C19: the request reaches the mimalloc core once with the requested size");
  CHECK(r == NULL || (in_new(r) && new_live), "C19: the block comes from the mimalloc core");
}
void h_override(void) {
  mock_init();
  size_t n = nd_size(); ASSUME(n <= 40);
  static int tag_obj; mi_nothrow_t tag = (mi_nothrow_t)&tag_obj;
  size_t req0; int sel = nd_u8() % 12;
#if GROUP == 0      /* allocation */
  void* r = NULL; bool z = false;
  switch (sel) {
    case 0: r = malloc(n); break;
    case 1: { size_t c = nd_size(), s2 = nd_size(); ASSUME(c <= 40 && s2 <= 40 && c * s2 == n); r = calloc(c, s2); z = true; break; }
    case 2: r = __libc_malloc(n); break;
    case 3: { size_t c = nd_size(), s2 = nd_size(); ASSUME(c <= 40 && s2 <= 40 && c * s2 == n); r = __libc_calloc(c, s2); z = true; break; }
    case 4: r = _ZnwmRKSt9nothrow_t(n, tag); break;
    case 5: r = _ZnamRKSt9nothrow_t(n, tag); break;
    case 6: abort_allowed = true; r = _Znwm(n); CHECK(r != NULL, "C19: throwing operator new never returns NULL"); break;
    case 7: abort_allowed = true; r = _Znam(n); CHECK(r != NULL, "C19: throwing operator new[] never returns NULL"); break;
    case 8: r = realloc(NULL, n); break;
    case 9: r = __libc_realloc(NULL, n); break;
    case 10: r = reallocf(NULL, n); break;
    default: r = reallocarray(NULL, 1, n); break;
  }
  served_alloc(r, n, z, "");
  CHECK(n_free == 0, "allocation entry points free nothing");
  if (r != NULL) WITNESS("served"); else WITNESS("refused");
#elif GROUP == 1    /* release / resize / query of a block obtained from any entry point */
  uint8_t* p = make_old(&req0, false);
  switch (sel) {
    case 0: free(p); break;            case 1: cfree(p); break;        case 2: vfree(p); break;
    case 3: __libc_free(p); break;     case 4: __libc_cfree(p); break; case 5: _ZdlPv(p); break;
    case 6: _ZdaPv(p); break;          case 7: _ZdlPvm(p, req0); break; case 8: _ZdaPvm(p, req0); break;
    case 9: _ZdlPvRKSt9nothrow_t(p, tag); break; case 10: _ZdaPvRKSt9nothrow_t(p, tag); break;
    default: _ZdlPvSt11align_val_t(p, 8); break;
  }
  CHECK(n_free == 1 && n_free_old == 1 && !old_live && n_malloc == 0, "C19: every release entry point frees the block through mimalloc exactly once");
  WITNESS("freed");
#elif GROUP == 2    /* usable size / resize */
  uint8_t* p = make_old(&req0, false);
  size_t us = old_usable;
  switch (sel % 6) {
    case 0: CHECK(malloc_usable_size(p) == us, "C19: malloc_usable_size is mimalloc's usable size"); break;
    case 1: CHECK(malloc_size(p) == us, "C19: malloc_size is mimalloc's usable size"); break;
    case 2: CHECK(malloc_good_size(n) == mi_good_size(n), "C19: malloc_good_size"); break;
    case 3: { void* r = realloc(p, n); CHECK(r == NULL || r == p || (in_new(r) && !old_live), "C19: realloc resizes through mimalloc"); break; }
    case 4: { void* r = reallocarray(p, 1, n); CHECK(r == NULL || r == p || (in_new(r) && !old_live), "C19: reallocarray resizes through mimalloc"); if (r == NULL) CHECK(errno == ENOMEM, "reallocarray errno"); break; }
    default: { void* slot = p; int rc = reallocarr(&slot, 1, n); CHECK(rc == 0 ? (slot == p || in_new(slot)) : slot == p, "C19: reallocarr through mimalloc"); break; }
  }
  WITNESS("end");
#else               /* aligned allocation */
  size_t al = (size_t)1 << (nd_u8() & 7); ASSUME(al >= 8 && al <= 32);
  void* r = NULL; void* out = NULL; int rc = 0; bool isposix = false;
  switch (sel) {
    case 0: rc = posix_memalign(&out, al, n); r = out; isposix = true; break;
    case 1: rc = __posix_memalign(&out, al, n); r = out; isposix = true; break;
    case 2: r = aligned_alloc(al, n); break;
    case 3: r = memalign(al, n); break;
    case 4: r = __libc_memalign(al, n); break;
    case 5: r = _aligned_malloc(al, n); break;
    case 6: r = _ZnwmSt11align_val_tRKSt9nothrow_t(n, al, tag); break;
    case 7: r = _ZnamSt11align_val_tRKSt9nothrow_t(n, al, tag); break;
    case 8: abort_allowed = true; r = _ZnwmSt11align_val_t(n, al); CHECK(r != NULL, "throwing aligned new never returns NULL"); break;
    case 9: abort_allowed = true; r = _ZnamSt11align_val_t(n, al); CHECK(r != NULL, "throwing aligned new[] never returns NULL"); break;
    default: r = mi_malloc_aligned(n, al); break;
  }
  if (r != NULL) { CHECK(in_new(r) && new_live, "C19: aligned block comes from the mimalloc core"); CHECK(((uintptr_t)r % al) == 0, "aligned as requested"); WITNESS("served"); }
  if (isposix) CHECK(rc == 0 || rc == ENOMEM, "posix_memalign return codes");
  CHECK(n_free == 0 || !new_live, "nothing else released");
#endif
}
#endif

#ifdef VERIF_REPLAY
int main(void) { VERIF_ENTRY(); return 0; }
#endif
