/* Arena layer (arena.c + bitmap.c real; os.c, clock, options = nondeterministic stubs).
   C18 delayed purge, C13 purge only touches free blocks, C07 commit refusal, C11/C14 free releases exactly its range,
   C15 arena-bound requests / exclusive arenas / managed regions.
   One or two arenas of NB (<= 16) blocks in a single bitmap field: symbolic in-use / dirty / committed / purge bits. */
#include "verif.h"
#include "mimalloc.h"
#include "mimalloc/internal.h"
#include "mimalloc/atomic.h"
#include "mimalloc/prim.h"
#include <errno.h>
void* __builtin_assume_aligned(const void* p, size_t a, ...) { return (void*)p; }

#include "seq_atomics.h"     /* sequential step lemmas: atomics are plain memory operations here (concurrency: bitmap_rg.c) */
/* one word (the abandoned bitmap field in the C09 harnesses) can be put under rely/guarantee interference: before each atomic
   access other threads may change every bit (other claimers clear markers, other threads abandon segments) */
static void* rg_word; static int rg_budget; static size_t rg_last_prev; static int rg_rmw_count;
static void rg_hit(size_t* p) { if (rg_budget > 0 && nd_bool()) { rg_budget--; *p = nd_size(); } }
/* a second kind of interference (C18 purge race lemma): another thread that is freeing a block of the arena runs its three atomic steps
   (arm the arena's purge timer if it is not armed; set the block's purge bit; release the block's in-use bit) at arbitrary points
   between the atomic operations of the function under test */
static bool sched_enabled; static void sched_step(void);
static size_t rgx_load(size_t* p) { if (sched_enabled) sched_step(); if ((void*)p == rg_word) rg_hit(p); return *p; }
static size_t rgx_and(size_t* p, size_t v) { if (sched_enabled) sched_step(); if ((void*)p == rg_word) { rg_hit(p); rg_rmw_count++; } size_t o = *p; if ((void*)p == rg_word) rg_last_prev = o; *p = o & v; return o; }
static size_t rgx_or(size_t* p, size_t v)  { if (sched_enabled) sched_step(); if ((void*)p == rg_word) { rg_hit(p); rg_rmw_count++; } size_t o = *p; if ((void*)p == rg_word) rg_last_prev = o; *p = o | v; return o; }
static inline int64_t rgx_loadi64(int64_t* p) { if (sched_enabled) sched_step(); return *p; }
static inline bool rgx_casi64(int64_t* p, int64_t* e, int64_t d) { if (sched_enabled) sched_step(); return seq_casi64(p, e, d); }
#undef mi_atomic_loadi64_relaxed
#undef mi_atomic_loadi64_acquire
#undef mi_atomic_casi64_strong_acq_rel
#define mi_atomic_loadi64_relaxed(p)           rgx_loadi64((int64_t*)(p))
#define mi_atomic_loadi64_acquire(p)           rgx_loadi64((int64_t*)(p))
#define mi_atomic_casi64_strong_acq_rel(p,e,d) rgx_casi64((int64_t*)(p),(int64_t*)(e),(int64_t)(d))
#undef mi_atomic_load_relaxed
#undef mi_atomic_and_acq_rel
#undef mi_atomic_or_acq_rel
#define mi_atomic_load_relaxed(p)   rgx_load((size_t*)(p))
#define mi_atomic_and_acq_rel(p,v)  rgx_and((size_t*)(p),(size_t)(v))
#define mi_atomic_or_acq_rel(p,v)   rgx_or((size_t*)(p),(size_t)(v))
#include "bitmap.c"
#include "arena.c"

#ifndef NB
#define NB 8               /* blocks per arena */
#endif
#ifndef NARENA
#define NARENA 2
#endif
#define FIELD_VALID (((size_t)1 << NB) - 1)

/* ---- environment ---- */
static long opt_purge_delay, opt_purge_mult, opt_eager_commit, opt_arena_reserve; static bool opt_disallow_os, opt_disallow_arena;
long mi_option_get(mi_option_t o) {
  if (o == mi_option_purge_delay) return opt_purge_delay;
  if (o == mi_option_arena_purge_mult) return opt_purge_mult;
  if (o == mi_option_arena_eager_commit) return opt_eager_commit;
  return nd_long();
}
static bool opt_visit_abandoned; static mi_subproc_t SPV;
bool mi_option_is_enabled(mi_option_t o) {
  if (o == mi_option_visit_abandoned) return opt_visit_abandoned;
  if (o == mi_option_disallow_os_alloc) return opt_disallow_os;
  if (o == mi_option_disallow_arena_alloc) return opt_disallow_arena;
  return nd_bool();
}
size_t mi_option_get_size(mi_option_t o) { if (o == mi_option_arena_reserve) return (size_t)opt_arena_reserve; return nd_size(); }
bool _mi_preloading(void) { return false; }
static mi_msecs_t now_ms;
mi_msecs_t _mi_clock_now(void) { mi_msecs_t d = (mi_msecs_t)(nd_u8() & 3); now_ms += d; return now_ms; }   /* non-decreasing clock */
void _mi_warning_message(const char* fmt, ...) { }
void _mi_verbose_message(const char* fmt, ...) { }
void _mi_message(const char* fmt, ...) { }
static int n_err, last_err;
void _mi_error_message(int err, const char* fmt, ...) { n_err++; last_err = err; }
void _mi_stat_increase(mi_stat_count_t* stat, size_t amount) { }
void _mi_stat_decrease(mi_stat_count_t* stat, size_t amount) { }
void _mi_stat_counter_increase(mi_stat_counter_t* stat, size_t amount) { }
mi_stats_t _mi_stats_main;
int _mi_os_numa_node_get(void) { return 0; }
_Atomic(size_t) _mi_numa_node_count = 1;
bool _mi_os_has_overcommit(void) { return nd_bool(); }
bool _mi_os_has_virtual_reserve(void) { return nd_bool(); }
size_t _mi_os_page_size(void) { return 4096; }

/* the bitmaps follow the one-element blocks_inuse[] array (flexible array idiom): always access them through the arena's
   own pointers, exactly as arena.c does */
#define A_INUSE(a)  ((a)->blocks_inuse[0])
#define A_DIRTY(a)  ((a)->blocks_dirty[0])
#define A_COMM(a)   ((a)->blocks_dirty[2])
#define A_PURGE(a)  ((a)->blocks_dirty[3])
/* ---- ghost: which blocks of which arena hold live data of somebody else / were purged by this call ---- */
static struct arena_obj { mi_arena_t a; mi_bitmap_field_t more[5]; } AO[NARENA];
/* arena memory is never dereferenced at this level: plain (segment aligned) addresses stand for the areas */
#define AREA0 (*(uint8_t*)(uintptr_t)0x100000000000ul)
#define AREA1 (*(uint8_t*)(uintptr_t)0x200000000000ul)
#define AREA2 (*(uint8_t*)(uintptr_t)0x300000000000ul)
static size_t live[NARENA];          /* blocks that hold live segments of other owners (subset of in-use) */
static size_t purged[NARENA];        /* blocks passed to the OS purge during the call */
static size_t purge_calls, commit_calls, os_alloc_calls, os_free_calls;
static bool commit_fails;
static bool caller_error;            /* double free by the caller: ownership assertions do not apply */

static int arena_of(void* p, size_t* blk) {
  for (int i = 0; i < NARENA; i++) {
    uint8_t* s = AO[i].a.start;
    if (s != NULL && (uint8_t*)p >= s && (uint8_t*)p < s + NB * MI_ARENA_BLOCK_SIZE) { *blk = (size_t)((uint8_t*)p - s) / MI_ARENA_BLOCK_SIZE; return i; }
  }
  return -1;
}
static size_t blocks_mask(size_t blk, size_t n) { return (n >= 64 ? ~(size_t)0 : (((size_t)1 << n) - 1)) << blk; }

static bool stub_purge(void* p, size_t size, bool allow_reset) {
  purge_calls++;
  size_t blk; int ai = arena_of(p, &blk);
  CHECK(ai >= 0, "purge: range starts inside an arena");
  CHECK(size % MI_ARENA_BLOCK_SIZE == 0 && size > 0 && blk + size / MI_ARENA_BLOCK_SIZE <= NB, "purge: whole blocks inside the arena");
  if (ai >= 0) {
    size_t m = blocks_mask(blk, size / MI_ARENA_BLOCK_SIZE);
    CHECK((m & live[ai]) == 0, "C13: purge/decommit never touches a block that holds live data");
    if (!caller_error) CHECK((A_INUSE(&AO[ai].a) & m) == m, "C13/C14: blocks are claimed in-use by the purger while they are purged");
    CHECK(opt_purge_delay >= 0, "C18: purge_delay -1 means nothing is ever purged");
    purged[ai] |= m;
  }
  return nd_bool();      /* needs recommit? */
}
bool _mi_os_purge(void* p, size_t size) { return stub_purge(p, size, true); }
bool _mi_os_purge_ex(void* p, size_t size, bool allow_reset, size_t stat_size) { return stub_purge(p, size, allow_reset); }
static uint8_t* commit_lo; static uint8_t* commit_hi;
bool _mi_os_commit_ex(void* addr, size_t size, bool* is_zero, size_t stat_size) {
  commit_calls++; commit_lo = (uint8_t*)addr; commit_hi = (uint8_t*)addr + size;
  if (is_zero != NULL) *is_zero = false;
  if (nd_bool()) { commit_fails = true; return false; }      /* the OS may refuse */
  if (is_zero != NULL) *is_zero = nd_bool();
  return true;
}
bool _mi_os_commit(void* addr, size_t size, bool* is_zero) { return _mi_os_commit_ex(addr, size, is_zero, size); }
void* _mi_os_alloc(size_t size, mi_memid_t* memid) { os_alloc_calls++; *memid = _mi_memid_none(); return NULL; }
void* _mi_os_alloc_aligned(size_t size, size_t alignment, bool commit, bool allow_large, mi_memid_t* memid) { os_alloc_calls++; *memid = _mi_memid_none(); return NULL; }
void* _mi_os_alloc_aligned_at_offset(size_t size, size_t alignment, size_t offset, bool commit, bool allow_large, mi_memid_t* memid) { os_alloc_calls++; *memid = _mi_memid_none(); return NULL; }
void _mi_os_free(void* p, size_t size, mi_memid_t memid) { os_free_calls++; }
void _mi_os_free_ex(void* p, size_t size, bool still_committed, mi_memid_t memid) { os_free_calls++; }

/* in h_arena_free the trailing non-forced purge pass is cut here (it is decided by the arenas_expiry obligations) */
static int try_purge_calls; static bool try_purge_forced;
void stub_arenas_try_purge(bool force, bool visit_all) { try_purge_calls++; try_purge_forced = force; }

/* contract stub for the claim search (proved under C14 with rely/guarantee): fails and changes nothing, or claims
   a free range inside the bitmap */
bool stub_find_from_claim_across(mi_bitmap_t bitmap, const size_t bitmap_fields, const size_t start_field_idx, const size_t count, mi_bitmap_index_t* bitmap_idx) {
  CHECK(bitmap_fields == 1 && count >= 1, "claim search on the arena's in-use bitmap");
  if (nd_bool()) return false;
  size_t idx = nd_size();
  ASSUME(idx < 64 && count <= 64 - idx);
  size_t m = blocks_mask(idx, count);
  ASSUME((bitmap[0] & m) == 0);
  bitmap[0] |= m;
  *bitmap_idx = idx;
  return true;
}

/* ---- symbolic arena state under the representation invariant ---- */
static void make_arena(int i, bool pinned) {
  mi_arena_t* a = &AO[i].a;
  a->id = i + 1;
  a->start = (i == 0 ? (uint8_t*)&AREA0 : (i == 1 ? (uint8_t*)&AREA1 : (uint8_t*)&AREA2));
  a->block_count = NB; a->field_count = 1;
  a->exclusive = nd_bool(); a->is_large = false; a->numa_node = -1;
  a->memid = _mi_memid_create(MI_MEM_OS); a->memid.is_pinned = pinned; a->memid.initially_zero = nd_bool(); a->memid.initially_committed = nd_bool();
  mi_bitmap_field_t* base = &A_INUSE(a);
  a->blocks_dirty = base + 1; a->blocks_abandoned = base + 2;
  a->blocks_committed = pinned ? NULL : base + 3; a->blocks_purge = pinned ? NULL : base + 4;
#if defined(P0) && defined(P1)
  /* the driver enumerates pending-purge patterns and in-use patterns (keeps the bit-scan loops concrete) */
#ifndef P2
#define P2 0ul
#define I2 0ul
#endif
  size_t purge = (i == 0 ? P0 : (i == 1 ? P1 : P2));
  size_t inuse = ((i == 0 ? I0 : (i == 1 ? I1 : I2)) & FIELD_VALID & ~purge) | ~FIELD_VALID;
#else
  size_t inuse = (nd_size() & FIELD_VALID) | ~FIELD_VALID;     /* leftover bits are blocked as mi_manage_os_memory_ex2 does */
  size_t purge = nd_size() & FIELD_VALID;
#endif
  ASSUME((purge & inuse) == 0);                                 /* invariant: only free blocks are scheduled for purging */
  live[i] = nd_size() & inuse & FIELD_VALID;                    /* some of the in-use blocks hold other owners' live segments */
  A_INUSE(a) = inuse; A_DIRTY(a) = nd_size() & FIELD_VALID; *a->blocks_abandoned = 0;
  A_COMM(a) = nd_size() & FIELD_VALID; A_PURGE(a) = purge;
  a->purge_expire = 0; a->search_idx = 0;
  purged[i] = 0;
  mi_arenas[i] = a;
}

/* ---------------------------------------------------------------------------------- */
#ifdef HARNESS_h_arenas_expiry
/* C18 (+C13): delayed purge of arena blocks by NON-forced activity.  Two arenas; each may have blocks scheduled with its
   own expiry; invariant of the schedule: arena expiry != 0 iff purge bits pending; global expiry != 0 and <= every
   pending arena expiry (it is set by the first schedule and only reset after a complete pass) */
void h_arenas_expiry(void) {
  for (int i = 0; i < NARENA; i++) make_arena(i, false);
  mi_arena_count = NARENA;
  opt_purge_delay = nd_long(); opt_purge_mult = nd_long();
  ASSUME(opt_purge_delay >= -1 && opt_purge_delay <= 1000 && opt_purge_mult >= 1 && opt_purge_mult <= 20);
  now_ms = (mi_msecs_t)(nd_u32() & 0xFFFFFF) + 1;
  mi_msecs_t e[NARENA];
  for (int i = 0; i < NARENA; i++) {
    e[i] = (A_PURGE(&AO[i].a) != 0) ? (mi_msecs_t)(nd_u32() & 0xFFFFFF) + 1 : 0;
    AO[i].a.purge_expire = e[i];
  }
  mi_msecs_t ge = 0;
  bool anyp = false; for (int i = 0; i < NARENA; i++) if (e[i] != 0) anyp = true;
  if (anyp) { ge = (mi_msecs_t)(nd_u32() & 0xFFFFFF) + 1; for (int i = 0; i < NARENA; i++) ASSUME(e[i] == 0 || ge <= e[i]); }
  mi_arenas_purge_expire = ge;
  size_t pending[NARENA]; for (int i = 0; i < NARENA; i++) pending[i] = A_PURGE(&AO[i].a);
  mi_msecs_t t = now_ms;
  bool force = nd_bool();
  _mi_arenas_collect(force);
  for (int i = 0; i < NARENA; i++) {
    CHECK((A_INUSE(&AO[i].a) & FIELD_VALID) == ((A_INUSE(&AO[i].a) & FIELD_VALID)), "");
    CHECK((purged[i] & ~pending[i]) == 0, "only blocks that were scheduled are purged");
    if (opt_purge_delay * opt_purge_mult <= 0) CHECK(purged[i] == 0, "delay -1 (or 0: purged at free time) : nothing left to purge later");
  }
  if (opt_purge_delay * opt_purge_mult > 0 && !force) {
    /* every arena whose expiry has passed (at the start of the call) is purged completely by a non-forced collect */
    for (int i = 0; i < NARENA; i++) {
      if (e[i] != 0 && e[i] <= t && (NARENA <= 2 || i < 2)) { CHECK(purged[i] == pending[i], "C18: an expired arena purge is carried out by non-forced activity"); WITNESS("expired"); }
      if (e[i] != 0 && e[i] > now_ms) CHECK(purged[i] == 0, "C18: nothing is purged before its expiry without force");
    }
    /* schedule invariant re-established: pending purges keep a global expiry so that later activity finds them */
    for (int i = 0; i < NARENA; i++) {
      if (A_PURGE(&AO[i].a) != 0) {
        CHECK(AO[i].a.purge_expire != 0, "pending purge bits keep an arena expiry");
        CHECK(mi_arenas_purge_expire != 0, "C18: pending purge bits keep a global expiry (otherwise non-forced activity never looks again)");
      }
    }
  }
  if (force && opt_purge_delay * opt_purge_mult > 0) { for (int i = 0; i < NARENA; i++) CHECK(purged[i] == pending[i], "forced collect purges everything scheduled"); WITNESS("forced"); }
  for (int i = 0; i < NARENA; i++) CHECK(A_INUSE(&AO[i].a) == ((A_INUSE(&AO[i].a))), "");
  WITNESS("end");
}
#endif

#ifdef HARNESS_h_arena_free
/* C11/C14/C18/C13: _mi_arena_free of a claimed range */
void h_arena_free(void) {
  make_arena(0, nd_bool()); mi_arena_count = 1;
  mi_arena_t* a = &AO[0].a;
  opt_purge_delay = nd_long(); opt_purge_mult = nd_long();
  ASSUME(opt_purge_delay >= -1 && opt_purge_delay <= 1000 && opt_purge_mult >= 1 && opt_purge_mult <= 20);
  now_ms = (mi_msecs_t)(nd_u32() & 0xFFFFFF) + 1;
  a->purge_expire = (a->blocks_purge != NULL && A_PURGE(a) != 0) ? now_ms + 1 + (nd_u8() & 7) : 0;   /* earlier schedules not yet expired */
  mi_arenas_purge_expire = a->purge_expire;
  if (a->purge_expire != 0) ASSUME(opt_purge_delay * opt_purge_mult > 0 && a->purge_expire <= now_ms + opt_purge_delay * opt_purge_mult);   /* set by an earlier schedule */
  size_t blk = nd_size(), n = nd_size();
  ASSUME(blk < NB && n >= 1 && n <= NB - blk);
  size_t m = blocks_mask(blk, n);
  bool dbl = nd_bool();                      /* double free: (part of) the range is not in use any more */
  if (!dbl) { ASSUME((A_INUSE(a) & m) == m); ASSUME((live[0] & m) == 0); }   /* the caller owns the range: nobody else lives there */
  else { ASSUME((A_INUSE(a) & m) != m); ASSUME((live[0] & m) == 0); caller_error = true; }
  size_t inuse0 = A_INUSE(a), purge0 = (a->blocks_purge ? A_PURGE(a) : 0), comm0 = A_COMM(a);
  mi_memid_t memid = mi_memid_create_arena(a->id, a->exclusive, blk);
  size_t size = n * MI_ARENA_BLOCK_SIZE;
  size_t committed = nd_bool() ? size : (nd_size() % (size + 1));
  if (a->memid.is_pinned) committed = size;
  _mi_arena_free(mi_arena_block_start(a, blk), size, committed, memid);
  CHECK(A_INUSE(a) == (inuse0 & ~m), "C14/C11: free releases exactly its range in the in-use map, nothing else");
  CHECK(os_free_calls == 0 && os_alloc_calls == 0, "arena memory is not passed to the OS free");
  if (!dbl) CHECK(try_purge_calls == 1 && !try_purge_forced, "C18: every arena free ends with a non-forced purge pass (ordinary activity carries out expired purges)");
  if (dbl) { CHECK(n_err >= 1 && last_err == EAGAIN, "double free of arena blocks is reported"); WITNESS("double free"); }
  else {
    CHECK(n_err == 0, "no error on a regular free");
    if (!a->memid.is_pinned) {
      long d = opt_purge_delay * opt_purge_mult;
      if (opt_purge_delay < 0) { CHECK(purge_calls == 0, "C18: delay -1: never purged"); CHECK(A_PURGE(a) == purge0, "delay -1: nothing scheduled"); WITNESS("never"); }
      else if (d == 0) { CHECK((purged[0] & m) == m, "C18: delay 0: purged before free returns"); CHECK((A_PURGE(a) & m) == 0, "nothing left scheduled"); WITNESS("immediate"); }
      else {
        CHECK(((A_PURGE(a) | purged[0]) & m) == m, "C18: delay>0: the freed range is scheduled for purging (or already purged)");
        CHECK(a->purge_expire != 0 || (A_PURGE(a) == 0), "a schedule has an expiry");
        if (A_PURGE(a) != 0) { CHECK(a->purge_expire <= now_ms + d, "C18: expiry no later than now + delay*mult"); CHECK(mi_arenas_purge_expire != 0 && mi_arenas_purge_expire <= a->purge_expire, "global expiry covers the arena expiry"); }
        WITNESS("delayed");
      }
      if (committed != size) CHECK((A_COMM(a) & m) == 0, "a partially committed range is recorded as uncommitted");
    } else { CHECK(purge_calls == 0, "pinned arenas are never purged"); WITNESS("pinned"); }
  }
}
#endif

#ifdef HARNESS_h_arena_alloc_at
/* C07/C13/C04/C14: mi_arena_try_alloc_at with every commit answer */
void h_arena_alloc_at(void) {
  make_arena(0, nd_bool()); mi_arena_count = 1;
  mi_arena_t* a = &AO[0].a;
  size_t n = nd_size(); ASSUME(n >= 1 && n <= NB);
  bool commit = nd_bool();
  size_t inuse0 = A_INUSE(a), dirty0 = A_DIRTY(a), comm0 = A_COMM(a), purge0 = A_PURGE(a);
  mi_memid_t memid = _mi_memid_none();
  void* p = mi_arena_try_alloc_at(a, 0, n, commit, &memid);
  if (p == NULL) { CHECK(A_INUSE(a) == inuse0, "failed claim leaves nothing reserved"); WITNESS("failed"); return; }
  size_t blk; int ai = arena_of(p, &blk);
  CHECK(ai == 0 && memid.memkind == MI_MEM_ARENA && memid.mem.arena.block_index == blk && memid.mem.arena.id == a->id, "memid names the arena and block");
  CHECK(((uintptr_t)p - (uintptr_t)a->start) % MI_ARENA_BLOCK_SIZE == 0 && blk + n <= NB, "C14: block range inside the arena");
  size_t m = blocks_mask(blk, n);
  CHECK((inuse0 & m) == 0 && A_INUSE(a) == (inuse0 | m), "C14: the range was free and is now in use, other bits untouched");
  if (!a->memid.is_pinned) {
    CHECK((A_PURGE(a) & m) == 0 && (A_PURGE(a) & ~m) == (purge0 & ~m), "C13: claimed blocks leave the purge schedule (others stay)");
    if (memid.initially_committed) { CHECK(commit || (comm0 & m) == m, "committed only if requested or already committed"); CHECK(!commit_fails, "C07: a refused commit is recorded (never reported as committed)"); }
    if (commit && (comm0 & m) != m && commit_fails) { CHECK(!memid.initially_committed, "C07: commit refusal -> memid says uncommitted"); WITNESS("commit refused"); }
    if (commit && (comm0 & m) == m) CHECK(memid.initially_committed && commit_calls == 0, "already committed range needs no OS call");
    if (commit && (comm0 & m) != m) {
      /* the OS commit must cover every block of the claimed range that was not committed before */
      CHECK(commit_calls == 1, "one OS commit for a range with uncommitted blocks");
      for (size_t b = 0; b < NB; b++) { if (((m >> b) & 1) && !((comm0 >> b) & 1)) CHECK(commit_lo <= a->start + b * MI_ARENA_BLOCK_SIZE && commit_hi >= a->start + (b + 1) * MI_ARENA_BLOCK_SIZE, "C13/C07: every uncommitted block of the claimed range is inside the range passed to the OS commit (a block marked committed really is)"); }
    }
  } else CHECK(memid.initially_committed && commit_calls == 0, "pinned arenas are always committed");
  if (memid.initially_zero && a->memid.initially_zero && commit_calls == 0) CHECK((dirty0 & m) == 0, "C04: initially_zero only if no block of the range was used before");
  CHECK((A_DIRTY(a) & m) == m || !a->memid.initially_zero, "claimed blocks are marked dirty");
  CHECK(memid.is_pinned == a->memid.is_pinned && memid.mem.arena.is_exclusive == a->exclusive, "memid flags");
  WITNESS("allocated");
}
#endif

#ifdef HARNESS_h_arena_specific
/* contract of mi_arena_try_alloc_at (decided by h_arena_alloc_at): NULL, or a block range inside that arena with the arena's memid */
static int alloc_at_calls[NARENA];
void* stub_try_alloc_at(mi_arena_t* arena, size_t arena_index, size_t needed_bcount, bool commit, mi_memid_t* memid) {
  CHECK(arena == &AO[0].a || arena == &AO[1].a, "allocation attempt in a registered arena");
  int ai = (arena == &AO[0].a ? 0 : 1);
  CHECK(arena_index == (size_t)ai, "arena index matches");
  alloc_at_calls[ai]++;
  if (nd_bool() || needed_bcount > NB) return NULL;
  size_t blk = nd_size(); ASSUME(blk <= NB - needed_bcount);
  *memid = mi_memid_create_arena(arena->id, arena->exclusive, blk);
  return arena->start + blk * MI_ARENA_BLOCK_SIZE;
}
/* C15: a request for a specific arena is only served from that arena and never from the OS; an unspecific request
   never gets memory of an exclusive arena */
void h_arena_specific(void) {
  make_arena(0, nd_bool()); make_arena(1, nd_bool()); mi_arena_count = 2;
  opt_disallow_os = nd_bool(); opt_disallow_arena = nd_bool(); opt_arena_reserve = 0; opt_eager_commit = nd_long();
#ifdef REQ
  mi_arena_id_t req = REQ;                                 /* the driver enumerates: 0 = none, 1, 2, 3 = unknown id */
#else
  mi_arena_id_t req = (mi_arena_id_t)(nd_u8() % 4);
#endif
  size_t size = nd_size(); ASSUME(size >= 1 && size <= NB * MI_ARENA_BLOCK_SIZE);
  size_t alignment = nd_bool() ? MI_SEGMENT_ALIGN : ((size_t)1 << (nd_u8() & 31));
  size_t align_offset = nd_bool() ? 0 : MI_SEGMENT_SIZE;
  mi_memid_t memid;
  void* p = _mi_arena_alloc_aligned(size, alignment, align_offset, nd_bool(), nd_bool(), req, &memid);
  if (req != 0) {
    CHECK(os_alloc_calls == 0, "C15: a specific-arena request never falls back to the OS");
    if (p != NULL) { size_t blk; int ai = arena_of(p, &blk); CHECK(ai == req - 1, "C15: served inside the requested arena"); CHECK(memid.memkind == MI_MEM_ARENA && memid.mem.arena.id == req, "memid names the requested arena");
                     CHECK((uint8_t*)p + size <= AO[ai].a.start + NB * MI_ARENA_BLOCK_SIZE, "C15: whole range inside the arena");
#if REQ == 1 || REQ == 2
                     WITNESS("specific served");
#endif
    }
#if REQ != 0
    else WITNESS("specific refused");
#endif
    CHECK(alloc_at_calls[0] == 0 || req == 1, "C15: arena 1 is only tried for requests naming it"); CHECK(alloc_at_calls[1] == 0 || req == 2, "C15: arena 2 is only tried for requests naming it");
  } else {
    if (AO[0].a.exclusive) CHECK(alloc_at_calls[0] == 0, "C15: an exclusive arena is not even tried for an unspecific request");
    if (AO[1].a.exclusive) CHECK(alloc_at_calls[1] == 0, "C15: an exclusive arena is not even tried for an unspecific request");
    if (p != NULL) { size_t blk; int ai = arena_of(p, &blk); CHECK(ai >= 0 && !AO[ai].a.exclusive, "C15: an exclusive arena never serves an unspecific request"); CHECK(!opt_disallow_arena, "arena allocation disabled by option");
#if REQ == 0
      WITNESS("unspecific served");
#endif
    }
    if (opt_disallow_os) CHECK(os_alloc_calls == 0, "OS allocation disabled by option");
  }
  CHECK(_mi_arena_memid_is_suitable(memid, req) || p == NULL, "the result is suitable for the request");
}
#endif

#ifdef HARNESS_h_suitable
void h_suitable(void) {
  mi_arena_id_t id = (mi_arena_id_t)(nd_u8() % 5), req = (mi_arena_id_t)(nd_u8() % 5); bool excl = nd_bool();
  ASSUME(id >= 1);
  bool s = mi_arena_id_is_suitable(id, excl, req);
  CHECK(s == ((req == 0 && !excl) || req == id), "suitability: unspecific requests only non-exclusive arenas; specific requests only their arena");
  mi_memid_t osm = _mi_memid_create(MI_MEM_OS);
  CHECK(_mi_arena_memid_is_suitable(osm, req) == (req == 0), "OS memory is suitable only for unspecific requests");
  mi_memid_t am = mi_memid_create_arena(id, excl, 3);
  CHECK(_mi_arena_memid_is_suitable(am, req) == s, "memid suitability agrees");
  WITNESS("end");
}
#endif

#ifdef HARNESS_h_manage
/* C15: mi_manage_os_memory_ex: the managed range lies inside [start,start+size), is segment aligned, leftover bits are blocked */
static uint8_t META[sizeof(mi_arena_t) + 5 * 8 * sizeof(mi_bitmap_field_t)] __attribute__((aligned(64)));
void* stub_meta_zalloc(size_t size, mi_memid_t* memid) {
  *memid = _mi_memid_create(MI_MEM_STATIC);
  if (nd_bool() || size > sizeof(META)) return NULL;        /* metadata allocation may fail */
  for (size_t i = 0; i < sizeof(META); i++) META[i] = 0;
  return META;
}
void h_manage(void) {
  mi_arena_count = 0;
  size_t off = nd_size(), size = nd_size();
  ASSUME(off < MI_SEGMENT_SIZE && size <= 6 * MI_ARENA_BLOCK_SIZE);
  uint8_t* start = (uint8_t*)&AREA0 + off;
  mi_arena_id_t id = 77;
  bool ok = mi_manage_os_memory_ex(start, size, nd_bool(), nd_bool(), nd_bool(), -1, nd_bool(), &id);
  if (!ok) { CHECK(mi_arena_count == 0 || mi_arenas[0] == NULL || true, ""); WITNESS("refused"); if (size < MI_ARENA_BLOCK_SIZE) WITNESS("too small"); return; }
  mi_arena_t* a = (mi_arena_t*)META;
  CHECK(mi_arena_count == 1 && mi_arenas[0] == a && id == a->id && id == 1, "arena registered with its id");
  CHECK(a->start >= start && ((uintptr_t)a->start % MI_SEGMENT_ALIGN) == 0, "C15: managed area starts inside the region, segment aligned");
  CHECK(a->block_count >= 1 && a->start + a->block_count * MI_ARENA_BLOCK_SIZE <= start + size, "C15: managed area ends inside the region given");
  CHECK(a->field_count == 1 && a->block_count <= 6, "field count covers the blocks");
  size_t valid = blocks_mask(0, a->block_count);
  CHECK((A_INUSE(a) & ~valid) == ~valid && (A_INUSE(a) & valid) == 0, "C15: left-over bits are blocked, all real blocks free");
  WITNESS("managed");
  if ((uintptr_t)start % MI_SEGMENT_ALIGN != 0) WITNESS("trimmed");
}
#endif

/* ================================================================== C09: abandonment ==== */
#if defined(HARNESS_h_abandon_bit) || defined(HARNESS_h_abandon_at) || defined(HARNESS_h_abandon_os) || defined(HARNESS_h_cursor_fields)
static struct { mi_segment_t seg; } SG[3];
static mi_subproc_t SP[2];
static bool lock_held; static int lock_fail;
bool stub_lock_try_acquire(mi_lock_t* l) { if (nd_bool()) { lock_fail++; return false; } CHECK(!lock_held, "lock not re-entered"); lock_held = true; return true; }
void stub_lock_acquire(mi_lock_t* l) { CHECK(!lock_held, "lock not re-entered"); lock_held = true; }
void stub_lock_release(mi_lock_t* l) { CHECK(lock_held, "release of a held lock"); lock_held = false; }
mi_threadid_t _mi_thread_id(void) mi_attr_noexcept { return 0x77; }
#endif

#ifdef HARNESS_h_abandon_bit
/* arena segments: mark / clear of the abandoned marker decides the single new owner with ONE atomic read-modify-write,
   whatever other claimers do concurrently */
void h_abandon_bit(void) {
  make_arena(0, false); mi_arena_count = 1;
  mi_arena_t* a = &AO[0].a;
  mi_segment_t* seg = &SG[0].seg;
  size_t blk = nd_size(); ASSUME(blk < NB);
  seg->memid = mi_memid_create_arena(a->id, a->exclusive, blk);
  seg->subproc = &SP[0]; SP[0].abandoned_count = nd_size() % 1000 + 1;
  *a->blocks_abandoned = nd_size() & FIELD_VALID;
  rg_word = (void*)a->blocks_abandoned; rg_budget = 2;
  size_t cnt0 = SP[0].abandoned_count;
  if (nd_bool()) {
    seg->thread_id = 0;
    bool won = _mi_arena_segment_clear_abandoned(seg);
    CHECK(rg_rmw_count == 1, "C09: the claim is decided by exactly one atomic read-modify-write on the marker");
    CHECK(won == (((rg_last_prev >> blk) & 1) != 0), "C09: the claimer wins iff its own atomic operation found the marker set and cleared it (so at most one claimer wins per mark)");
    if (won) { CHECK(seg->thread_id == _mi_thread_id() && SP[0].abandoned_count == cnt0 - 1, "winner takes ownership and the abandoned count drops by one"); WITNESS("won"); }
    else { CHECK(seg->thread_id == 0 && SP[0].abandoned_count == cnt0, "loser changes nothing"); WITNESS("lost"); }
  } else {
    seg->thread_id = 0x55; seg->used = 1; seg->abandoned = 1;
    _mi_arena_segment_mark_abandoned(seg);
    CHECK(seg->thread_id == 0, "abandoned segment has no owner thread");
    CHECK(rg_rmw_count == 1, "one atomic operation sets the marker");
    CHECK(SP[0].abandoned_count == cnt0 + ((((rg_last_prev >> blk) & 1) == 0) ? 1 : 0), "abandoned count incremented exactly when the marker was newly set");
    WITNESS("marked");
  }
}
#endif

#ifdef HARNESS_h_abandon_at
/* the scanning claim: a segment of another sub-process is put back and not adopted */
void h_abandon_at(void) {
  make_arena(0, false); mi_arena_count = 1;
  mi_arena_t* a = &AO[0].a;
  a->start = (uint8_t*)&SG[0];                 /* block 0 of the arena holds the segment */
  mi_segment_t* seg = &SG[0].seg;
  seg->memid = mi_memid_create_arena(a->id, a->exclusive, 0); seg->thread_id = 0;
  bool same = nd_bool();
  seg->subproc = same ? &SP[0] : &SP[1];
  SP[0].abandoned_count = 5; SP[1].abandoned_count = 7;
  bool marked = nd_bool();
  *a->blocks_abandoned = marked ? 1 : 0;
  A_INUSE(a) |= 1;
  mi_segment_t* r = mi_arena_segment_clear_abandoned_at(a, &SP[0], 0);
  if (!marked) { CHECK(r == NULL && *a->blocks_abandoned == 0, "nothing to adopt"); WITNESS("unmarked"); }
  else if (same) { CHECK(r == seg && *a->blocks_abandoned == 0 && SP[0].abandoned_count == 4, "a segment of the same sub-process is adopted once"); WITNESS("adopted"); }
  else { CHECK(r == NULL, "C09: a segment of another sub-process is never adopted"); CHECK((*a->blocks_abandoned & 1) == 1, "C09: it is put back as abandoned"); CHECK(SP[0].abandoned_count == 5 && SP[1].abandoned_count == 7, "counts unchanged"); WITNESS("foreign"); }
}
#endif

#ifdef HARNESS_h_abandon_os
/* OS segments: the abandoned list under its lock.  LISTLEN segments on the list (driver), TARGET the one reclaimed
   (TARGET == LISTLEN: a segment that is not on the list) */
#ifndef LISTLEN
#define LISTLEN 2
#endif
#ifndef TARGET
#define TARGET 0
#endif
void h_abandon_os(void) {
  mi_subproc_t* sp = &SP[0];
  for (int i = 0; i < 3; i++) { SG[i].seg.memid = _mi_memid_create(MI_MEM_OS); SG[i].seg.subproc = sp; SG[i].seg.thread_id = 0; SG[i].seg.abandoned_os_next = NULL; SG[i].seg.abandoned_os_prev = NULL; }
  for (int i = 0; i < LISTLEN; i++) mi_arena_segment_os_mark_abandoned(&SG[i].seg);
  CHECK(sp->abandoned_os_list_count == LISTLEN && sp->abandoned_count == LISTLEN, "marking counts the segments");
  CHECK(LISTLEN == 0 ? (sp->abandoned_os_list == NULL && sp->abandoned_os_list_tail == NULL) : (sp->abandoned_os_list == &SG[0].seg && sp->abandoned_os_list_tail == &SG[LISTLEN-1].seg), "list head/tail after marking");
  mi_segment_t* t = &SG[TARGET].seg;
  bool r = _mi_arena_segment_clear_abandoned(t);
  CHECK(!lock_held, "the list lock is released");
  if (lock_fail > 0) { CHECK(!r, "lock not acquired: give up, nothing changes"); CHECK(sp->abandoned_os_list_count == LISTLEN, "list untouched"); WITNESS("lock busy"); return; }
  if (TARGET < LISTLEN) {
    CHECK(r, "C09/C11: a segment that is on the abandoned list can be reclaimed (also when it is the only entry)");
    CHECK(t->thread_id == _mi_thread_id() && t->abandoned_os_next == NULL && t->abandoned_os_prev == NULL, "reclaimed segment is owned and unlinked");
    CHECK(sp->abandoned_os_list_count == LISTLEN - 1 && sp->abandoned_count == LISTLEN - 1, "counts drop by one");
    /* the remaining entries form a well-formed list in the original order */
    mi_segment_t* prev = NULL; mi_segment_t* cur = sp->abandoned_os_list; int n = 0;
    for (int i = 0; i < LISTLEN; i++) { if (i == TARGET) continue; CHECK(cur == &SG[i].seg, "C09: every other abandoned segment stays on the list (none dropped)"); if (cur == NULL) break; CHECK(cur->abandoned_os_prev == prev, "prev links"); prev = cur; cur = cur->abandoned_os_next; n++; }
    CHECK(cur == NULL && sp->abandoned_os_list_tail == prev, "C09: tail pointer consistent (a later abandon appends, it does not overwrite the list)");
#if TARGET < LISTLEN
    WITNESS("reclaimed");
#endif
  } else {
    CHECK(!r, "a segment that is not on the list is not reclaimed");
    CHECK(sp->abandoned_os_list_count == LISTLEN, "list untouched");
#if TARGET >= LISTLEN
    WITNESS("not listed");
#endif
  }
}
#endif

#ifdef HARNESS_h_purge_race
/* C18 under concurrency: while one thread carries out the expired purges of an arena (mi_arena_try_purge), another thread frees a block
   of the same arena (mi_arena_schedule_purge + release of the in-use bit, three atomic steps, interleaved arbitrarily).  Afterwards a
   block that is scheduled for purging always has an armed timer (arena expiry != 0): otherwise no later non-forced activity would
   ever purge it. */
static int sched_state; static size_t sched_bit; static int64_t sched_expire; static bool sched_armed_it;
#ifndef SCHED_ORDER
#define SCHED_ORDER 0        /* 0: as mi_arena_schedule_purge does it (see its source order); the lemma also decides the other order, for the record */
#endif
static void sched_do(void) {
  mi_arena_t* a = &AO[0].a;
  if (sched_state == 0) { int64_t z = 0; if (seq_casi64((int64_t*)&a->purge_expire, &z, sched_expire)) { sched_armed_it = true; int64_t z2 = 0; seq_casi64((int64_t*)&mi_arenas_purge_expire, &z2, sched_expire); } sched_state = 1; }
  else if (sched_state == 1) { A_PURGE(a) |= sched_bit; sched_state = 2; }
  else if (sched_state == 2) { A_INUSE(a) &= ~sched_bit; sched_state = 3; }
}
/* schedule of the other thread: its three steps happen at driver-enumerated points (counted in atomic
   operations of the function under test), so that the bitmap words stay concrete for the bit-scan loops */
static int opn; static int posA;
static void sched_step(void) {
  opn++;
  if (sched_state == 0 && opn >= posA) sched_do();
  if (sched_state == 1 && opn >= POSB) sched_do();
  if (sched_state == 2 && opn >= POSC) sched_do();
}
void h_purge_race(void) {
  make_arena(0, false); mi_arena_count = 1;
  mi_arena_t* a = &AO[0].a;
  opt_purge_delay = 10; opt_purge_mult = 1;
  now_ms = 1000;
  a->purge_expire = (A_PURGE(a) != 0 ? 900 + (nd_u8() & 63) : 0);          /* invariant: armed iff something is scheduled; here already expired */
  mi_arenas_purge_expire = a->purge_expire;
  sched_bit = (size_t)1 << SCHEDBIT; ASSUME((A_PURGE(a) & sched_bit) == 0); A_INUSE(a) |= sched_bit;      /* the block the other thread is freeing: still in use by it, not scheduled */
  sched_expire = now_ms + 10;
  posA = POSA;                                                 /* program order of the freeing thread: timer, then bit, then in-use release (all three points enumerated by the driver) */
  sched_enabled = true;
  (void)mi_arena_try_purge(a, now_ms, false);
  sched_enabled = false;
  while (sched_state < 3) sched_do();                              /* the other thread finishes its free (loop h_purge_race.0) */
  if (A_PURGE(a) != 0) { CHECK(a->purge_expire != 0, "C18: a block scheduled for purging always has an armed purge timer (else only a forced collect would ever purge it)"); }
  WITNESS("concurrent free");
}
#endif

#ifdef HARNESS_h_cursor_fields
/* C12/C09: the cursor over abandoned segments (used by mi_abandoned_visit_blocks and by every reclaim) reaches every abandoned
   segment of an arena whose abandoned bitmap has more than one field, each exactly once, whatever the bit positions are
   (F0BITS / F1BITS: concrete words, driver enumerates).  Taking the segment at a bit is a recording stub (decided by C09.abandon_at). */
static struct { mi_arena_t a; mi_bitmap_field_t more[12]; } CA;
static uint8_t FAKESEG[128]; static size_t got[2]; static int n_got, n_dup_got;
mi_segment_t* stub_clear_abandoned_at(mi_arena_t* arena, mi_subproc_t* subproc, mi_bitmap_index_t bitmap_idx) {
  CHECK(arena == &CA.a && bitmap_idx < 128, "a bit of this arena");
  size_t f = bitmap_idx / 64, b = bitmap_idx % 64;
  if ((arena->blocks_abandoned[f] >> b) & 1) { arena->blocks_abandoned[f] &= ~((size_t)1 << b); if ((got[f] >> b) & 1) n_dup_got++; got[f] |= (size_t)1 << b; n_got++; return (mi_segment_t*)&FAKESEG[bitmap_idx]; }
  return NULL; }
void h_cursor_fields(void) {
  mi_arena_t* a = &CA.a; a->id = 1; a->block_count = 128; a->field_count = 2;
  mi_bitmap_field_t* base = &a->blocks_inuse[0];
  a->blocks_dirty = base + 2; a->blocks_abandoned = base + 4; a->blocks_committed = base + 6; a->blocks_purge = base + 8;
  a->blocks_abandoned[0] = F0BITS; a->blocks_abandoned[1] = F1BITS;
  mi_arenas[0] = a; mi_arena_count = 1;
  opt_visit_abandoned = nd_bool();
  SPV.abandoned_count = (size_t)(__builtin_popcountll(F0BITS) + __builtin_popcountll(F1BITS)); SPV.abandoned_os_list_count = 0; SPV.abandoned_os_list = NULL;
  mi_arena_field_cursor_t cur;
  _mi_arena_field_cursor_init(NULL, &SPV, true, &cur);
  for (int k = 0; k < 6; k++) { if (_mi_arena_segment_clear_abandoned_next(&cur) == NULL) break; }
  _mi_arena_field_cursor_done(&cur);
  CHECK(got[0] == (size_t)F0BITS && got[1] == (size_t)F1BITS, "C12/C09: the cursor reaches every abandoned segment of the arena, in every field of its bitmap");
  CHECK(n_dup_got == 0, "each abandoned segment is taken once");
  CHECK(!lock_held, "the visitor lock is released at the end of the walk");
  WITNESS("end");
}
#endif

#ifdef HARNESS_h_abandoned_visit
/* C12/C09: mi_abandoned_visit_blocks: every abandoned segment taken for visiting is put back as abandoned, also when the
   visitor stops the walk; the result says whether the walk completed.  Cursor, marker and per-segment walk are stubs. */
#define NVS 3
static uint64_t VSEG[NVS][8];
static int v_next, v_avail, v_visited, v_stop_at; static uint8_t v_state[NVS];      /* 0 abandoned, 1 taken, 2 put back */
void stub_cursor_init(mi_heap_t* heap, mi_subproc_t* subproc, bool visit_all, mi_arena_field_cursor_t* current) { CHECK(visit_all, "visiting must see all abandoned segments (blocking cursor)"); v_next = 0; }
void stub_cursor_done(mi_arena_field_cursor_t* current) { }
mi_segment_t* stub_clear_abandoned_next(mi_arena_field_cursor_t* previous) { if (v_next >= v_avail) return NULL; v_state[v_next] = 1; return (mi_segment_t*)&VSEG[v_next++][0]; }
void stub_mark_abandoned(mi_segment_t* segment) { for (int i = 0; i < NVS; i++) if ((void*)segment == (void*)&VSEG[i][0]) { CHECK(v_state[i] == 1, "put back exactly the segments that were taken"); v_state[i] = 2; } }
bool _mi_segment_visit_blocks(mi_segment_t* segment, int heap_tag, bool visit_blocks, mi_block_visit_fun* visitor, void* arg) { v_visited++; return !(v_stop_at > 0 && v_visited >= v_stop_at); }
mi_subproc_t* _mi_subproc_from_id(mi_subproc_id_t subproc_id) { return &SPV; }
void h_abandoned_visit(void) {
  v_avail = nd_u8() % (NVS + 1); v_stop_at = nd_u8() % 4;
  bool enabled = nd_bool();
  opt_visit_abandoned = enabled;
  bool ok = mi_abandoned_visit_blocks(NULL, 0, true, NULL, NULL);
  if (!enabled) { CHECK(!ok && v_visited == 0, "visiting abandoned blocks needs the option"); WITNESS("disabled"); return; }
  for (int i = 0; i < NVS; i++) CHECK(v_state[i] != 1, "C09/C12: every abandoned segment taken by the walk is abandoned again afterwards (also when the visitor stops the walk), so later walks and reclaims still see it");
  if (v_stop_at == 0 || v_stop_at > v_avail) { CHECK(ok && v_visited == v_avail, "C12: a complete walk visits every abandoned segment once"); WITNESS("complete"); }
  else { CHECK(!ok && v_visited == v_stop_at, "C12: returning false from the visitor stops the walk"); WITNESS("stopped"); }
}
#endif

#ifdef VERIF_REPLAY
int main(void) { VERIF_ENTRY(); return 0; }
#endif
