/* C14 (also C09/C13 bit level): bitmap.c under rely/guarantee sequentialisation.
   Every atomic operation of the real code is interposed at the mi_atomic_* macro level (no source change: the macros
   are redefined after mimalloc/atomic.h has been included, bitmap.c is included afterwards).  Before each atomic
   access "all other threads" may change the accessed word arbitrarily EXCEPT the bits this thread owns (rely);
   every write of this thread is checked to only set bits that were 0 or clear bits it owns (guarantee).
   Ghost `mine[f]`: bits this thread has set and not yet cleared.  Interference budget IBUDGET bounds CAS retries. */
#include "verif.h"
#include "mimalloc.h"
#include "mimalloc/internal.h"
#include "mimalloc/atomic.h"
#include "bitmap.h"
void* __builtin_assume_aligned(const void* p, size_t a, ...) { return (void*)p; }

#ifndef NF
#define NF 2
#endif
#ifndef IBUDGET
#define IBUDGET 2
#endif
/* WINf: bits of field f that are permanently in use by others (never change during the call).  The bit-scan loop of
   _mi_bitmap_try_find_claim_field is exponentially hard for the SAT back end in the width of the region that can be
   free (measured: 16 bits 10-50 s, 32 bits > 200 s, 64 bits no verdict), so each obligation leaves a 16-bit window of
   the bitmap symbolic (low end, high end, across the field boundary) and pins the rest to "in use". */
#ifndef WIN0
#define WIN0 0ul
#endif
#ifndef WIN1
#define WIN1 0ul
#endif
#ifndef WIN2
#define WIN2 0ul
#endif
static const size_t WINS[3] = { WIN0, WIN1, WIN2 };
/* as in mi_arena_t the bitmap is embedded in a larger object (the code forms `field-1` pointers during roll-back) */
static struct { size_t before[2]; _Atomic(size_t) bm[NF]; size_t after[2]; } BMO;
#define BM (BMO.bm)
static size_t mine[NF];
static int ibudget = IBUDGET;
static int n_guarantee_viol;

static size_t fidx(size_t* p) {
  size_t f = (size_t)(p - (size_t*)&BM[0]);
  CHECK(f < NF, "atomic access inside the bitmap");
  return f;
}
static void rg_interfere(size_t* p) {
  size_t f = fidx(p);
  if (ibudget > 0 && nd_bool()) {
    ibudget--;
    size_t v = nd_size();
    *p = ((v & ~mine[f]) | (*p & mine[f])) | WINS[f];      /* others never touch bits we own */
  }
}
static void rg_wrote(size_t* p, size_t old, size_t new) {
  size_t f = fidx(p);
  size_t set = new & ~old, clr = old & ~new;
  CHECK((clr & ~mine[f]) == 0, "guarantee: never clears a bit it does not own");
  mine[f] = (mine[f] | set) & ~clr;
}
static size_t rg_load(size_t* p) { rg_interfere(p); return *p; }
static bool rg_cas(size_t* p, size_t* expected, size_t desired) {
  rg_interfere(p);
  if (*p == *expected) { size_t old = *p; *p = desired; rg_wrote(p, old, desired); return true; }
  *expected = *p; return false;
}
static size_t rg_and(size_t* p, size_t v) { rg_interfere(p); size_t old = *p; *p = old & v; rg_wrote(p, old, *p); return old; }
static size_t rg_or(size_t* p, size_t v)  { rg_interfere(p); size_t old = *p; *p = old | v; rg_wrote(p, old, *p); return old; }
static void rg_store(size_t* p, size_t v) {
  rg_interfere(p);
  size_t f = fidx(p); size_t old = *p;
  /* a blind store overwrites whatever others did in between: only allowed on a word that is entirely ours */
  CHECK(mine[f] == MI_BITMAP_FIELD_FULL || v == old, "guarantee: blind store only to a field that is completely owned");
  *p = v; rg_wrote(p, old, v);
}

#undef mi_atomic_load_relaxed
#undef mi_atomic_load_acquire
#undef mi_atomic_cas_strong_acq_rel
#undef mi_atomic_cas_weak_acq_rel
#undef mi_atomic_and_acq_rel
#undef mi_atomic_or_acq_rel
#undef mi_atomic_store_release
#define mi_atomic_load_relaxed(p)                rg_load((size_t*)(p))
#define mi_atomic_load_acquire(p)                rg_load((size_t*)(p))
#define mi_atomic_cas_strong_acq_rel(p,e,d)      rg_cas((size_t*)(p),(size_t*)(e),(size_t)(d))
#define mi_atomic_cas_weak_acq_rel(p,e,d)        (nd_bool() ? rg_cas((size_t*)(p),(size_t*)(e),(size_t)(d)) : (*(size_t*)(e) = rg_load((size_t*)(p)), false))
#define mi_atomic_and_acq_rel(p,v)               rg_and((size_t*)(p),(size_t)(v))
#define mi_atomic_or_acq_rel(p,v)                rg_or((size_t*)(p),(size_t)(v))
#define mi_atomic_store_release(p,v)             rg_store((size_t*)(p),(size_t)(v))

#include "bitmap.c"

void _mi_stat_counter_increase(mi_stat_counter_t* stat, size_t amount) { }
mi_stats_t _mi_stats_main;

static void init_bitmap(void) { for (int i = 0; i < NF; i++) { BM[i] = nd_size() | WINS[i]; mine[i] = 0; } }
bool stub_unreachable_find_claim_field(mi_bitmap_t bitmap, size_t idx, const size_t count, mi_bitmap_index_t* bitmap_idx) {
  CHECK(false, "single-field scan is not reached for counts above 64"); return false;
}
static size_t range_mask(size_t f, size_t start, size_t count) {   /* bits of field f inside [start,start+count) */
  size_t flo = f * MI_BITMAP_FIELD_BITS, fhi = flo + MI_BITMAP_FIELD_BITS;
  size_t lo = (start > flo ? start : flo), hi = (start + count < fhi ? start + count : fhi);
  if (lo >= hi) return 0;
  size_t n = hi - lo;
  size_t ones = (n >= MI_BITMAP_FIELD_BITS ? ~(size_t)0 : (((size_t)1 << n) - 1));
  return ones << (lo - flo);
}
static void check_owns_exactly(size_t start, size_t count, const char* dummy) {
  for (size_t f = 0; f < NF; f++) {
    size_t m = range_mask(f, start, count);
    CHECK(mine[f] == m, "success: owns exactly the claimed range, nothing else");
    CHECK((BM[f] & m) == m, "success: every claimed bit is set in the bitmap");
  }
}
static void check_owns_nothing(void) { for (size_t f = 0; f < NF; f++) CHECK(mine[f] == 0, "failure/release: nothing stays reserved"); }

/* ------------------------------------------------------------------------------- */
#ifdef HARNESS_h_find_claim_across
/* the arena's claim: any number of concurrent claimers/freers; count in [CMIN,CMAX] */
#ifndef CMIN
#define CMIN 1
#endif
#ifndef CMAX
#define CMAX (NF*64)
#endif
void h_find_claim_across(void) {
  init_bitmap();
  size_t count = nd_range(CMIN, CMAX);
#ifdef START
  size_t start_field = START;          /* the driver enumerates the start field; contents stay symbolic */
#else
  size_t start_field = nd_range(0, NF - 1);
#endif
  mi_bitmap_index_t idx = 0;
  bool ok = _mi_bitmap_try_find_from_claim_across(BM, NF, start_field, count, &idx);
  if (ok) {
    CHECK(idx + count <= NF * MI_BITMAP_FIELD_BITS, "claimed range lies inside the bitmap");
    check_owns_exactly(idx, count, "");
    WITNESS("claimed");
#ifdef EXPECT_CROSS
    if (idx / 64 != (idx + count - 1) / 64) WITNESS("claimed across a field boundary");
#endif
  } else {
    check_owns_nothing();
    WITNESS("failed");
  }
}
#endif

#ifdef HARNESS_h_find_claim_field
void h_find_claim_field(void) {
  init_bitmap();
#ifndef FCMIN
#define FCMIN 1
#define FCMAX MI_BITMAP_FIELD_BITS
#endif
  size_t count = nd_range(FCMIN, FCMAX);
#ifdef START
  size_t f = START;
#else
  size_t f = nd_range(0, NF - 1);
#endif
  mi_bitmap_index_t idx = 0;
  bool ok = _mi_bitmap_try_find_claim_field(BM, f, count, &idx);
  if (ok) {
    CHECK(idx / 64 == f && (idx % 64) + count <= 64, "claimed range inside the field");
    check_owns_exactly(idx, count, "");
    WITNESS("claimed");
  } else { check_owns_nothing(); WITNESS("failed"); }
}
#endif

#ifdef HARNESS_h_try_claim
/* the temporary claim used while purging */
void h_try_claim(void) {
  init_bitmap();
  size_t f = nd_range(0, NF - 1), bit = nd_range(0, 63), count = nd_range(1, 64 - bit);
  mi_bitmap_index_t idx = mi_bitmap_index_create(f, bit);
  bool ok = _mi_bitmap_try_claim(BM, NF, count, idx);
  if (ok) { check_owns_exactly(idx, count, ""); WITNESS("claimed");
    /* and release it again */
    bool all = _mi_bitmap_unclaim(BM, NF, count, idx);
    CHECK(all, "own bits were still set at release");
    check_owns_nothing();
  } else { check_owns_nothing(); WITNESS("failed"); }
}
#endif

#ifdef HARNESS_h_unclaim_across
/* release of an owned range (arena free) and double-free detection */
void h_unclaim_across(void) {
  init_bitmap();
  size_t start = nd_range(0, NF * 64 - 1), count = nd_range(1, NF * 64 - start);
  bool owned = nd_bool();
  size_t snap[NF];
  if (owned) { for (size_t f = 0; f < NF; f++) { size_t m = range_mask(f, start, count); BM[f] |= m; mine[f] = m; } }
  else {
    /* double free: the caller no longer owns the range; by the time of the call other threads may own parts of it.
       Modelled sequentially (no interference) to check the report only. */
    ibudget = 0;
    for (size_t f = 0; f < NF; f++) { mine[f] = range_mask(f, start, count) & BM[f]; }
  }
  for (size_t f = 0; f < NF; f++) snap[f] = BM[f];
  bool all = _mi_bitmap_unclaim_across(BM, NF, count, (mi_bitmap_index_t)start);
  if (owned) {
    CHECK(all, "releasing an owned range reports all bits were set");
    check_owns_nothing();
    if (ibudget == IBUDGET) { for (size_t f = 0; f < NF; f++) CHECK(BM[f] == (snap[f] & ~range_mask(f, start, count)), "exactly the range is cleared, other bits untouched"); }
    WITNESS("released");
  } else {
    bool was_all = true; for (size_t f = 0; f < NF; f++) { size_t m = range_mask(f, start, count); if ((snap[f] & m) != m) was_all = false; }
    CHECK(all == was_all, "double free detection: returns false iff some bit was already clear");
    WITNESS("double free path");
  }
}
#endif

#ifdef HARNESS_h_claim_across
/* _mi_bitmap_claim_across / _is_claimed_across on the auxiliary bitmaps (dirty/committed/purge): functional result */
void h_claim_across(void) {
  init_bitmap(); ibudget = 0;
  size_t start = nd_range(0, NF * 64 - 1), count = nd_range(1, NF * 64 - start);
  size_t snap[NF]; bool anyz = false, anyo = false;
  for (size_t f = 0; f < NF; f++) { snap[f] = BM[f]; size_t m = range_mask(f, start, count); if ((snap[f] & m) != m) anyz = true; if ((snap[f] & m) != 0) anyo = true; }
  size_t already = 0; bool any_zero = false;
  size_t a2 = 0;
  bool isc = _mi_bitmap_is_claimed_across(BM, NF, count, (mi_bitmap_index_t)start, &a2);
  CHECK(isc == !anyz, "_mi_bitmap_is_claimed_across: true iff every bit of the range is set");
  CHECK(a2 <= count && (a2 == 0) == !anyo, "_mi_bitmap_is_claimed_across: already_set is 0 iff no bit is set, never above count (exact count: statistics only, not claimed)");
  bool allzero = _mi_bitmap_claim_across(BM, NF, count, (mi_bitmap_index_t)start, &any_zero, &already);
  CHECK(allzero == !anyo, "claim_across: all_zero iff no bit of the range was set");
  CHECK(any_zero == anyz, "claim_across: any_zero iff some bit of the range was clear");
  CHECK(already <= count && (already == 0) == !anyo, "claim_across: already_set is 0 iff no bit was set, never above count");
  for (size_t f = 0; f < NF; f++) CHECK(BM[f] == (snap[f] | range_mask(f, start, count)), "claim_across sets exactly the range");
  WITNESS("end");
}
#endif

#ifdef VERIF_REPLAY
int main(void) { VERIF_ENTRY(); return 0; }
#endif
