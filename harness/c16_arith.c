/* C16: size-class and address arithmetic (pure bit-vector lemmas over the real functions).
   Real code executed: page-queue.c (mi_bin,_mi_bin_size,mi_good_size,mi_page_queue), init.c (_mi_heap_empty
   bin table), segment.c (mi_slice_bin8, _mi_segment_page_start_from_slice, span queue table),
   free.c (_mi_page_ptr_unalign), internal.h helpers. */
#include "verif.h"
#include "mimalloc.h"
#include "mimalloc/internal.h"
#include "mimalloc/prim.h"
void* __builtin_assume_aligned(const void* p, size_t a, ...) { return (void*)p; }

#include "init.c"
#include "page.c"
#include "segment.c"
#include "alloc.c"   /* includes free.c */
#include "os.c"
#include "libc.c"

/* a segment object whose address range covers a whole MI_SEGMENT_SIZE (only the header is ever accessed) */
struct segobj { mi_segment_t seg; uint8_t rest[MI_SEGMENT_SIZE - sizeof(mi_segment_t)]; };
static struct segobj S;

/* ---------------------------------------------------------------------------------- */
#ifdef HARNESS_h_bin
/* for every request size: class >= request, monotone, <= 25% waste above 64 bytes, huge above medium max */
void h_bin(void) {
  size_t n = nd_size();
  ASSUME(n <= SIZE_MAX - sizeof(uintptr_t));       /* documented precondition of _mi_wsize_from_size */
  size_t bin = mi_bin(n);
  CHECK(bin >= 1 && bin <= MI_BIN_HUGE, "bin in range");
  CHECK(_mi_bin(n) == bin, "_mi_bin == mi_bin");
  if (n <= MI_MEDIUM_OBJ_SIZE_MAX) {
    size_t bs = _mi_bin_size(bin);
    CHECK(bin < MI_BIN_HUGE, "small/medium sizes never map to the huge bin");
    CHECK(bs >= n, "block size >= request");
    CHECK(bs % 8 == 0, "block size multiple of 8");
    if (n > 8) CHECK(bs % 16 == 0 || bs < 16, "block size multiple of 16 above 8 bytes");
    if (n > 64) CHECK((bs - n) * 4 <= bs, "waste <= 25% of the block above 64 bytes");
    if (n <= 64) CHECK(bs - n < 16, "waste < 16 bytes up to 64 bytes");
    CHECK(mi_bin(bs) == bin, "class size maps to its own bin");
    WITNESS("small/medium");
  } else {
    CHECK(bin == MI_BIN_HUGE, "sizes above the medium maximum map to the huge bin");
    WITNESS("huge");
  }
  /* monotone */
  size_t m = nd_size();
  ASSUME(m <= n);
  CHECK(mi_bin(m) <= bin, "bins monotone in the request");
  if (n <= MI_MEDIUM_OBJ_SIZE_MAX) CHECK(_mi_bin_size(mi_bin(m)) <= _mi_bin_size(bin), "block sizes monotone in the request");
}
#endif

#ifdef HARNESS_h_bintable
/* the bin table itself: strictly increasing, word multiples, huge/full sentinels */
void h_bintable(void) {
  const size_t last = mi_bin(MI_MEDIUM_OBJ_SIZE_MAX);     /* last bin that mi_bin ever selects */
  size_t b = nd_range(1, MI_BIN_HUGE - 1);
  size_t bs = _mi_bin_size(b);
  CHECK(bs >= 8 && bs % 8 == 0, "table entries are word multiples");
  if (b + 1 < MI_BIN_HUGE) CHECK(_mi_bin_size(b + 1) > bs, "table strictly increasing");
  if (b <= last) CHECK(mi_bin(bs) == b || (bs % 16 != 0), "a (16-aligned) table entry maps to its own index");
  CHECK(last < MI_BIN_HUGE && _mi_bin_size(last) == MI_MEDIUM_OBJ_SIZE_MAX, "the last bin in use is exactly the medium maximum");
  CHECK(mi_page_queue_is_huge(&_mi_heap_empty.pages[MI_BIN_HUGE]), "huge queue sentinel");
  CHECK(mi_page_queue_is_full(&_mi_heap_empty.pages[MI_BIN_FULL]), "full queue sentinel");
  WITNESS("end");
}
#endif

#ifdef HARNESS_h_good_size
/* mi_good_size(n) >= n, idempotent, equals the block size of the queue that serves n */
void h_good_size(void) {
  size_t n = nd_size();
  ASSUME(n <= (size_t)PTRDIFF_MAX);
  size_t g = mi_good_size(n);
  CHECK(g >= n, "good_size >= n");
  CHECK(mi_good_size(g) == g, "good_size idempotent");
  if (n <= MI_MEDIUM_OBJ_SIZE_MAX) {
    mi_heap_t* heap = (mi_heap_t*)&_mi_heap_empty;
    /* the queue the generic path uses for a request of n bytes (+padding) and the block size a fresh page gets */
    mi_page_queue_t* pq = mi_page_queue(heap, n + MI_PADDING_SIZE);
    CHECK(pq->block_size == g, "good_size == block size of the serving queue (usable size of malloc(n))");
    if (n <= MI_SMALL_SIZE_MAX) {
      /* the small fast path indexes pages_free_direct by wsize; mi_heap_queue_first_update fills index range by bin */
      size_t w = _mi_wsize_from_size(n + MI_PADDING_SIZE);
      CHECK(w <= MI_PAGES_DIRECT - 1 || MI_PADDING_SIZE > 0, "direct index in range");
      CHECK(mi_bin(w * sizeof(uintptr_t)) == mi_bin(n + MI_PADDING_SIZE), "direct-table slot and queue agree on the bin");
    }
    WITNESS("medium");
  } else {
    CHECK(g % 4096 == 0 || mi_os_mem_config.page_size != 4096, "large good sizes are page multiples");
    CHECK(g - n < 4096 + MI_PADDING_SIZE || mi_os_mem_config.page_size != 4096, "large good sizes waste < one page");
    WITNESS("large");
  }
}
#endif

#ifdef HARNESS_h_slice_bin
/* span bins: monotone in the slice count, within the table, and the queue table entry is consistent */
void h_slice_bin(void) {
  size_t n = nd_range(0, MI_SLICES_PER_SEGMENT);
  size_t m = nd_range(0, MI_SLICES_PER_SEGMENT);
  size_t bn = mi_slice_bin8(n);
  CHECK(bn <= MI_SEGMENT_BIN_MAX, "span bin within table");
  CHECK(mi_slice_bin(n) == bn, "mi_slice_bin == mi_slice_bin8");
  if (m <= n) CHECK(mi_slice_bin8(m) <= bn, "span bins monotone (a larger free span is never in a smaller bin)");
  if (n >= 1) CHECK(bn >= 1, "non-empty spans never use bin 0");
  if (n <= 8) CHECK(bn == n, "exact bins for 0..8 slices");
  CHECK(mi_slice_bin8(MI_SLICES_PER_SEGMENT) <= MI_SEGMENT_BIN_MAX, "the bin of a whole segment is within the table");
  /* the static table of span queues: entry b holds the largest slice count of bin b */
  static const mi_span_queue_t tbl[MI_SEGMENT_BIN_MAX+1] = MI_SEGMENT_SPAN_QUEUES_EMPTY;
  if (n >= 1) {
    CHECK(tbl[bn].slice_count >= n || bn == MI_SEGMENT_BIN_MAX, "queue table entry bounds the slice counts of its bin");
    CHECK(mi_slice_bin8(tbl[bn].slice_count) == bn || bn == MI_SEGMENT_BIN_MAX, "queue table entry lies in its own bin");
  }
  WITNESS("end");
}
#endif

#ifdef HARNESS_h_ptr_segment
/* every address inside a segment (1..MI_SEGMENT_SIZE bytes past the base) maps back to the segment */
void h_ptr_segment(void) {
  size_t off = ((size_t)nd_u32() & (MI_SEGMENT_SIZE - 1)) + 1;     /* 1..MI_SEGMENT_SIZE */
  uint8_t* p = (uint8_t*)&S + off;
  mi_segment_t* seg = _mi_ptr_segment(p);
  CHECK(seg == &S.seg, "_mi_ptr_segment recovers the segment for every interior address (incl. base+MI_SEGMENT_SIZE)");
  CHECK(((uintptr_t)seg & MI_SEGMENT_MASK) == 0, "segment pointer aligned");
  /* slice index used by _mi_segment_page_of */
  size_t idx = (size_t)((uint8_t*)p - (uint8_t*)seg) >> MI_SEGMENT_SLICE_SHIFT;
  CHECK(idx <= MI_SLICES_PER_SEGMENT, "slice index within slices[] (which has one extra entry)");
  CHECK(idx == off / MI_SEGMENT_SLICE_SIZE, "slice index is the slice containing p");
  WITNESS("end");
}
#endif

#ifdef HARNESS_h_page_of
/* slice map lookup: any address inside a page's span resolves to the span's first slice.
   Map entries as written by mi_segment_span_allocate: first slice offset 0/count cnt, the following
   min(cnt-1, MI_MAX_SLICE_OFFSET_COUNT) slices and the last slice carry byte back-offsets. */
void h_page_of(void) {
  mi_segment_t nd_seg;                  /* uninitialised local: every field nondeterministic */
  S.seg = nd_seg;
  mi_segment_t* seg = &S.seg;
  size_t i0  = (size_t)nd_u32() & 511;
  size_t cnt = (size_t)nd_u32() & 1023;
  size_t k   = (size_t)nd_u32() & 511;            /* slice inside the span that p points into */
  ASSUME(i0 >= 1 && cnt >= 1 && cnt <= MI_SLICES_PER_SEGMENT - i0 && k < cnt);
  ASSUME(k <= MI_MAX_SLICE_OFFSET_COUNT || k == cnt - 1);   /* block starts/aligned pointers lie in the first 256 slices or (huge) the last */
  ASSUME(seg->slice_entries == MI_SLICES_PER_SEGMENT);
  ASSUME(seg->slices[i0].slice_offset == 0);
  ASSUME(seg->slices[i0].slice_count  == (uint32_t)cnt);
  ASSUME(seg->slices[i0 + k].slice_offset == (uint32_t)(sizeof(mi_slice_t) * k));
  size_t off = (size_t)nd_u32() & (MI_SEGMENT_SLICE_SIZE - 1);
  uint8_t* p = (uint8_t*)seg + (i0 + k) * MI_SEGMENT_SLICE_SIZE + off;
  mi_page_t* page = _mi_segment_page_of(seg, p);
  CHECK(page == (mi_page_t*)&seg->slices[i0], "_mi_segment_page_of returns the first slice of the span containing p");
  CHECK(mi_slice_first(&seg->slices[i0 + k]) == &seg->slices[i0], "mi_slice_first follows the back-offset");
  WITNESS("end");
}
#endif

#ifdef HARNESS_h_page_start
/* start of a page's block area: inside the span, 16-aligned, block-size aligned for sizes with alignment guarantee.
   block size = entry of the real bin table selected by -DBIN (driver enumerates) or symbolic bin */
void h_page_start(void) {
  mi_segment_t nd_seg;                  /* uninitialised local: every field nondeterministic */
  S.seg = nd_seg;
  mi_segment_t* seg = &S.seg;
  size_t idx = (size_t)nd_u32() & 511;
  size_t cnt = (size_t)nd_u32() & 1023;
  ASSUME(cnt >= 1 && cnt <= MI_SLICES_PER_SEGMENT - idx);
  ASSUME(seg->slices[idx].slice_count == (uint32_t)cnt);
#ifdef BIN
  size_t bs = _mi_bin_size(BIN);
#else
  size_t bs = _mi_bin_size(nd_range(1, 48));
#endif
  /* page sizes as chosen by mi_segments_page_alloc for a block of this class: one slice (small) or 8 slices (medium) */
  CHECK(bs <= MI_MEDIUM_OBJ_SIZE_MAX, "bin in use");
  ASSUME(cnt == (bs <= MI_SMALL_OBJ_SIZE_MAX ? 1 : MI_MEDIUM_PAGE_SIZE / MI_SEGMENT_SLICE_SIZE));
  size_t psize = 0;
  uint8_t* p = _mi_segment_page_start_from_slice(seg, &seg->slices[idx], bs, &psize);
  uint8_t* lo = (uint8_t*)seg + idx * MI_SEGMENT_SLICE_SIZE;
  CHECK(((uintptr_t)p % MI_MAX_ALIGN_SIZE) == 0, "page start 16-aligned");
  CHECK(p >= lo, "page start not before the span");
  CHECK(p + psize == lo + cnt * MI_SEGMENT_SLICE_SIZE, "page area ends exactly at the span end");
  CHECK(psize <= cnt * MI_SEGMENT_SLICE_SIZE, "page size does not exceed the span");
  CHECK(psize >= bs, "at least one block fits");
  /* what mi_malloc_is_naturally_aligned relies on: blocks of size bs are aligned to every power of two that divides bs, i.e. the
     page start is aligned to the largest such power (= bs itself for 2^k classes).  (Sizes = 8 mod 16 -- 24, 40, 56 -- are not
     bs-aligned after the 16-byte round-up of the start offset, and no property asks for that.) */
  CHECK(((uintptr_t)p % (bs & (~bs + 1))) == 0, "page start aligned to the largest power of two dividing the block size (alignment guarantee)");
  CHECK(psize / bs >= 1 && (bs > MI_SMALL_OBJ_SIZE_MAX || psize / bs >= 7), "page holds at least 7 small / 1 medium blocks");
  WITNESS("end");
}
#endif

#ifdef HARNESS_h_unalign
/* interior pointer -> block start, for shift and modulo paths; block_size_shift as mi_page_init sets it */
void h_unalign(void) {
  static mi_page_t page;
#ifdef BIN
  size_t bs = _mi_bin_size(BIN);
#else
  size_t bs = nd_size();
#ifdef SYM_BS_MAX          /* symbolic block size: bounded so that the symbolic modulo stays decidable (all real bins are decided exactly, one obligation per bin) */
  ASSUME(bs >= 8 && bs % 8 == 0 && bs <= SYM_BS_MAX);
#else
  ASSUME(bs >= 8 && bs % 8 == 0 && bs <= MI_LARGE_OBJ_SIZE_MAX);
#endif
#endif
  page.block_size = bs;
  page.block_size_shift = (uint8_t)(_mi_is_power_of_two(bs) ? mi_ctz(bs) : 0);   /* as in mi_page_init */
  size_t soff = nd_size();           /* page start: any 16-aligned offset inside the segment object */
  ASSUME(soff % 16 == 0 && soff >= sizeof(mi_segment_t) && soff < MI_SEGMENT_SIZE);
  uint8_t* start = (uint8_t*)&S + soff;
  page.page_start = start;
  size_t boff = nd_size();           /* offset of the block start in the page area */
  ASSUME(boff < MI_SEGMENT_SIZE - soff && boff % bs == 0);
#ifdef SYM_BOFF_MAX
  ASSUME(boff <= SYM_BOFF_MAX);
#endif
  size_t off = nd_size();            /* interior offset */
  ASSUME(off < bs && soff + boff + off < MI_SEGMENT_SIZE);
  void* p = (void*)(start + boff + off);
  mi_block_t* b = _mi_page_ptr_unalign(&page, p);
  CHECK((uint8_t*)b == start + boff, "_mi_page_ptr_unalign recovers the block start for every interior offset");
#ifdef BIN
  WITNESS("end");
#else
  if (page.block_size_shift != 0) { WITNESS("shift path"); } else { WITNESS("modulo path"); }
#endif
}
#endif

#ifdef HARNESS_h_unalign_pow2
/* power-of-two block sizes up to 2^40 (huge blocks): the shift/mask path must use full-width arithmetic */
#include <stdlib.h>
void h_unalign_pow2(void) {
  static mi_page_t page;
  uint8_t* big = (uint8_t*)&S;    /* address range only; never dereferenced (run without pointer-bounds instrumentation: a huge block extends past the 32MiB object) */
  size_t k = nd_range(3, 40);
  size_t bs = (size_t)1 << k;
  page.block_size = bs;
  page.block_size_shift = (uint8_t)(_mi_is_power_of_two(bs) ? mi_ctz(bs) : 0);   /* as in mi_page_init */
  CHECK(page.block_size_shift == k, "shift is log2 of the block size");
  size_t soff = (size_t)nd_u32() & 0x3FFFFF0;
  uint8_t* start = big + soff;
  page.page_start = start;
  size_t boff = nd_bool() ? bs : 0;
  size_t off = nd_size();
  ASSUME(off < bs);
  void* p = (void*)(start + boff + off);
  mi_block_t* b = _mi_page_ptr_unalign(&page, p);
  CHECK((uint8_t*)b == start + boff, "_mi_page_ptr_unalign recovers the block start (power-of-two sizes up to 2^40)");
  WITNESS("end");
}
#endif

#ifdef HARNESS_h_fast_divide
/* C12/C16: the heap walk's division by the block size (magic multiply + shift) is exact for every offset in a page */
#include "heap.c"
void h_fast_divide(void) {
  size_t bs = _mi_bin_size(BIN);
  uint64_t magic; size_t shift;
  mi_get_fast_divisor(bs, &magic, &shift);
  size_t n = nd_size();
  ASSUME(n < ((size_t)1 << 16) * bs && n < ((size_t)1 << 32));        /* offsets inside a page: < 2^16 blocks, code asserts n <= UINT32_MAX */
  CHECK(mi_fast_divide(n, magic, shift) == n / bs, "mi_fast_divide(n) == n / block_size for every offset in a page");
  WITNESS("end");
}
#endif

#ifdef HARNESS_h_helpers
void h_helpers(void) {
  uintptr_t x = nd_u64();
  size_t a = nd_size();
  ASSUME(a != 0);
#if HELPERS_MODE == 1          /* power-of-two alignment 2^k (the mask paths), full 64-bit value */
  ASSUME((a & (a - 1)) == 0);
#elif HELPERS_MODE == 2        /* any alignment (the divide/multiply paths), value and alignment below 2^HELPERS_BITS */
  ASSUME(x < ((uintptr_t)1 << HELPERS_BITS) && a < ((size_t)1 << HELPERS_BITS));
#endif
  if (x <= UINTPTR_MAX - a) {
    uintptr_t u = _mi_align_up(x, a);
    CHECK(u >= x && u - x < a && u % a == 0, "_mi_align_up: smallest multiple >= x");
  }
  uintptr_t d = _mi_align_down(x, a);
  CHECK(d <= x && x - d < a && d % a == 0, "_mi_align_down: largest multiple <= x");
  if (x <= UINTPTR_MAX - a) {
    uintptr_t q = _mi_divide_up(x, a);
    CHECK(q == x / a + (x % a != 0 ? 1 : 0), "_mi_divide_up is the ceiling");
  }
  CHECK(_mi_is_power_of_two(a) == (__builtin_popcountll(a) == 1), "_mi_is_power_of_two (non-zero argument)");
  if (x <= SIZE_MAX - 8) CHECK(_mi_wsize_from_size(x) * 8 >= x && _mi_wsize_from_size(x) * 8 < x + 8, "_mi_wsize_from_size rounds up to words");
  CHECK(_mi_clamp(x, 10, 20) >= 10 && _mi_clamp(x, 10, 20) <= 20, "_mi_clamp");
  WITNESS("end");
}
#endif

#ifdef HARNESS_h_bits
/* bit-scan helpers against a bit-by-bit reference */
static size_t ref_clz(uint64_t x) { size_t n = 0; for (int i = 63; i >= 0; i--) { if ((x >> i) & 1) break; n++; } return n; }
static size_t ref_ctz(uint64_t x) { size_t n = 0; for (int i = 0; i < 64; i++) { if ((x >> i) & 1) break; n++; } return n; }
static size_t ref_pop(uint64_t x) { size_t n = 0; for (int i = 0; i < 64; i++) { n += (x >> i) & 1; } return n; }
void h_bits(void) {
  uint64_t x = nd_u64();
  CHECK(mi_clz(x) == ref_clz(x), "mi_clz");
  CHECK(mi_ctz(x) == ref_ctz(x), "mi_ctz");
  if (x != 0) CHECK(mi_bsr(x) == 63 - ref_clz(x), "mi_bsr");
  CHECK(_mi_popcount_generic(x) == ref_pop(x), "_mi_popcount_generic");
  CHECK(mi_popcount(x) == ref_pop(x), "mi_popcount");
  WITNESS("end");
}
#endif

#ifdef VERIF_REPLAY
int main(void) { VERIF_ENTRY(); return 0; }
#endif
