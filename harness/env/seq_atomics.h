/* Sequential re-definition of the mi_atomic_* macros (include after mimalloc/atomic.h, before the TU under test).
   For harnesses that decide *sequential* step lemmas: every atomic operation becomes the plain memory operation, so
   that CBMC constant-propagates through them.  (Concurrency is decided separately with rely/guarantee interposition.) */
#ifndef SEQ_ATOMICS_H
#define SEQ_ATOMICS_H
static inline bool seq_cas(size_t* p, size_t* e, size_t d) { if (*p == *e) { *p = d; return true; } *e = *p; return false; }
static inline bool seq_casi64(int64_t* p, int64_t* e, int64_t d) { if (*p == *e) { *p = d; return true; } *e = *p; return false; }
static inline size_t seq_add(size_t* p, size_t v) { size_t o = *p; *p = o + v; return o; }
static inline size_t seq_and(size_t* p, size_t v) { size_t o = *p; *p = o & v; return o; }
static inline size_t seq_or(size_t* p, size_t v)  { size_t o = *p; *p = o | v; return o; }
static inline size_t seq_xchg(size_t* p, size_t v) { size_t o = *p; *p = v; return o; }
#undef mi_atomic_load_relaxed
#undef mi_atomic_load_acquire
#undef mi_atomic_store_release
#undef mi_atomic_store_relaxed
#undef mi_atomic_cas_strong_acq_rel
#undef mi_atomic_cas_weak_acq_rel
#undef mi_atomic_cas_weak_release
#undef mi_atomic_cas_strong_release
#undef mi_atomic_and_acq_rel
#undef mi_atomic_or_acq_rel
#undef mi_atomic_add_acq_rel
#undef mi_atomic_add_relaxed
#undef mi_atomic_sub_acq_rel
#undef mi_atomic_sub_relaxed
#undef mi_atomic_exchange_acq_rel
#undef mi_atomic_exchange_release
#undef mi_atomic_increment_relaxed
#undef mi_atomic_decrement_relaxed
#undef mi_atomic_increment_acq_rel
#undef mi_atomic_decrement_acq_rel
#undef mi_atomic_loadi64_relaxed
#undef mi_atomic_loadi64_acquire
#undef mi_atomic_storei64_release
#undef mi_atomic_storei64_relaxed
#undef mi_atomic_casi64_strong_acq_rel
#undef mi_atomic_load_ptr_acquire
#undef mi_atomic_load_ptr_relaxed
#undef mi_atomic_store_ptr_release
#undef mi_atomic_store_ptr_relaxed
#undef mi_atomic_cas_ptr_weak_release
#undef mi_atomic_cas_ptr_weak_acq_rel
#undef mi_atomic_cas_ptr_strong_release
#undef mi_atomic_exchange_ptr_release
#undef mi_atomic_exchange_ptr_acq_rel
#define mi_atomic_load_relaxed(p)              (*(size_t*)(p))
#define mi_atomic_load_acquire(p)              (*(size_t*)(p))
#define mi_atomic_store_release(p,v)           ((void)(*(size_t*)(p) = (size_t)(v)))
#define mi_atomic_store_relaxed(p,v)           ((void)(*(size_t*)(p) = (size_t)(v)))
#define mi_atomic_cas_strong_acq_rel(p,e,d)    seq_cas((size_t*)(p),(size_t*)(e),(size_t)(d))
#define mi_atomic_cas_weak_acq_rel(p,e,d)      seq_cas((size_t*)(p),(size_t*)(e),(size_t)(d))
#define mi_atomic_cas_weak_release(p,e,d)      seq_cas((size_t*)(p),(size_t*)(e),(size_t)(d))
#define mi_atomic_cas_strong_release(p,e,d)    seq_cas((size_t*)(p),(size_t*)(e),(size_t)(d))
#define mi_atomic_and_acq_rel(p,v)             seq_and((size_t*)(p),(size_t)(v))
#define mi_atomic_or_acq_rel(p,v)              seq_or((size_t*)(p),(size_t)(v))
#define mi_atomic_add_acq_rel(p,v)             seq_add((size_t*)(p),(size_t)(v))
#define mi_atomic_add_relaxed(p,v)             seq_add((size_t*)(p),(size_t)(v))
#define mi_atomic_sub_acq_rel(p,v)             seq_add((size_t*)(p),(size_t)0-(size_t)(v))
#define mi_atomic_sub_relaxed(p,v)             seq_add((size_t*)(p),(size_t)0-(size_t)(v))
#define mi_atomic_exchange_acq_rel(p,v)        seq_xchg((size_t*)(p),(size_t)(v))
#define mi_atomic_exchange_release(p,v)        seq_xchg((size_t*)(p),(size_t)(v))
#define mi_atomic_increment_relaxed(p)         seq_add((size_t*)(p),1)
#define mi_atomic_decrement_relaxed(p)         seq_add((size_t*)(p),(size_t)-1)
#define mi_atomic_increment_acq_rel(p)         seq_add((size_t*)(p),1)
#define mi_atomic_decrement_acq_rel(p)         seq_add((size_t*)(p),(size_t)-1)
#define mi_atomic_loadi64_relaxed(p)           (*(int64_t*)(p))
#define mi_atomic_loadi64_acquire(p)           (*(int64_t*)(p))
#define mi_atomic_storei64_release(p,v)        ((void)(*(int64_t*)(p) = (int64_t)(v)))
#define mi_atomic_storei64_relaxed(p,v)        ((void)(*(int64_t*)(p) = (int64_t)(v)))
#define mi_atomic_casi64_strong_acq_rel(p,e,d) seq_casi64((int64_t*)(p),(int64_t*)(e),(int64_t)(d))
#define mi_atomic_load_ptr_acquire(tp,p)       ((tp*)(*(void**)(p)))
#define mi_atomic_load_ptr_relaxed(tp,p)       ((tp*)(*(void**)(p)))
#define mi_atomic_store_ptr_release(tp,p,x)    ((void)(*(void**)(p) = (void*)(x)))
#define mi_atomic_store_ptr_relaxed(tp,p,x)    ((void)(*(void**)(p) = (void*)(x)))
#define mi_atomic_cas_ptr_weak_release(tp,p,e,d)   seq_cas((size_t*)(p),(size_t*)(e),(size_t)(d))
#define mi_atomic_cas_ptr_weak_acq_rel(tp,p,e,d)   seq_cas((size_t*)(p),(size_t*)(e),(size_t)(d))
#define mi_atomic_cas_ptr_strong_release(tp,p,e,d) seq_cas((size_t*)(p),(size_t*)(e),(size_t)(d))
#define mi_atomic_exchange_ptr_release(tp,p,x)     ((tp*)seq_xchg((size_t*)(p),(size_t)(x)))
#define mi_atomic_exchange_ptr_acq_rel(tp,p,x)     ((tp*)seq_xchg((size_t*)(p),(size_t)(x)))
#endif
