/* Common harness support: nondeterminism wrappers, assume/assert/witness macros.
   Two build modes:
     - under goto-cc/cbmc (default): nondeterminism is symbolic
     - native replay (-DVERIF_REPLAY, gcc): nd_*() read the values recorded from a CBMC counterexample
       trace (file named by env VERIF_REPLAY_FILE, one decimal/hex value per line, in execution order);
       a failed ASSUME ends the replay with exit 3 (diverged), a failed CHECK prints REPLAY-VIOLATION
       and exits 1; reaching the end exits 0.
   Every source of nondeterminism in a harness goes through nd_*() so that the trace contains one
   assignment to the local `verif_nd_val` per choice, in execution order. */
#ifndef VERIF_H
#define VERIF_H
#include <stdint.h>
#include <stddef.h>
#include <stdbool.h>

#ifndef VERIF_REPLAY
uint64_t nondet_u64(void);
#define ASSUME(c)      __CPROVER_assume(c)
#define CHECK(c,msg)   __CPROVER_assert((c), "CHECK " msg)
#define WITNESS(name)  __CPROVER_assert(0, "WITNESS " name)
static inline uint64_t nd_u64(void) { uint64_t verif_nd_val = nondet_u64(); return verif_nd_val; }
#else
#include <stdio.h>
#include <stdlib.h>
static FILE* verif_replay_f;
static inline uint64_t nd_u64(void) {
  if (!verif_replay_f) { const char* fn = getenv("VERIF_REPLAY_FILE"); verif_replay_f = fn ? fopen(fn,"r") : NULL;
    if (!verif_replay_f) { fprintf(stderr,"REPLAY: no input file\n"); exit(4); } }
  unsigned long long v = 0; if (fscanf(verif_replay_f, "%lli", (long long*)&v) != 1) { v = 0; }
  return (uint64_t)v;
}
#define ASSUME(c)      do { if(!(c)) { fprintf(stderr,"REPLAY: assumption failed: %s (%s:%d)\n", #c, __FILE__, __LINE__); exit(3); } } while(0)
#define CHECK(c,msg)   do { if(!(c)) { printf("REPLAY-VIOLATION %s (%s:%d)\n", msg, __FILE__, __LINE__); fflush(stdout); exit(1); } } while(0)
#define WITNESS(name)  do { } while(0)
#endif

static inline size_t   nd_size(void)  { return (size_t)nd_u64(); }
static inline uint32_t nd_u32(void)   { return (uint32_t)nd_u64(); }
static inline uint8_t  nd_u8(void)    { return (uint8_t)nd_u64(); }
static inline int      nd_int(void)   { return (int)nd_u64(); }
static inline long     nd_long(void)  { return (long)nd_u64(); }
static inline bool     nd_bool(void)  { return (nd_u64() & 1) != 0; }
/* value in [lo,hi] */
static inline size_t   nd_range(size_t lo, size_t hi) { size_t v = nd_size(); ASSUME(v >= lo && v <= hi); return v; }

#endif
