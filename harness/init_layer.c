/* init.c: thread metadata cache (C11: thread metadata obtained from the OS is given back with its own memid; C07: allocation
   failure is reported, not crashed on).  _mi_os_alloc / _mi_os_free are recording stubs; atomics sequential. */
#include "verif.h"
#include "mimalloc.h"
#include "mimalloc/internal.h"
#include "mimalloc/atomic.h"
#include "mimalloc/prim.h"
#include <errno.h>
void* __builtin_assume_aligned(const void* p, size_t a, ...) { return (void*)p; }
static inline mi_threadid_t verif_tid(void) { return 0x1000; }      /* used when the driver passes -DMI_PRIM_THREAD_ID=verif_tid */
#include "seq_atomics.h"
#include "init.c"

static int n_err, last_err;
void _mi_error_message(int err, const char* fmt, ...) { n_err++; last_err = err; }
void _mi_warning_message(const char* fmt, ...) { }
void _mi_verbose_message(const char* fmt, ...) { }

static mi_thread_data_t TDO[2] __attribute__((aligned(64)));
static int n_os_alloc, n_os_free; static void* freed_p[2]; static mi_memid_t freed_memid[2]; static size_t freed_size[2];
static mi_memid_t fresh_memid;
void* _mi_os_alloc(size_t size, mi_memid_t* memid) {
  n_os_alloc++;
  CHECK(size == sizeof(mi_thread_data_t), "thread metadata size");
  *memid = _mi_memid_none();
  if (nd_bool()) return NULL;                            /* the OS may refuse */
  *memid = _mi_memid_create(MI_MEM_OS); memid->initially_committed = true; memid->initially_zero = nd_bool(); memid->mem.os.base = &TDO[1]; memid->mem.os.size = nd_size();
  fresh_memid = *memid;
  if (memid->initially_zero) { uint64_t* w = (uint64_t*)&TDO[1]; for (size_t i = 0; i < sizeof(mi_thread_data_t) / 8; i++) w[i] = 0; }
  return &TDO[1];
}
void _mi_os_free(void* p, size_t size, mi_memid_t memid) { if (n_os_free < 2) { freed_p[n_os_free] = p; freed_memid[n_os_free] = memid; freed_size[n_os_free] = size; } n_os_free++; }
static bool memid_eq(mi_memid_t a, mi_memid_t b) { return a.memkind == b.memkind && a.mem.os.base == b.mem.os.base && a.mem.os.size == b.mem.os.size && a.initially_committed == b.initially_committed && a.is_pinned == b.is_pinned; }

#ifndef SLOT
#define SLOT 5
#endif
static mi_memid_t cached_memid;
static bool cache_has;
static void make_cache(void) {
#ifdef CACHEHAS
  cache_has = (CACHEHAS != 0);        /* enumerated by the driver where the block pointer must stay concrete */
#else
  cache_has = nd_bool();
#endif
  if (cache_has) {
    uint64_t* w = (uint64_t*)&TDO[0]; for (size_t i = 0; i < sizeof(mi_thread_data_t) / 8; i++) w[i] = nd_u64();      /* a used (dirty) block */
    cached_memid = _mi_memid_create(MI_MEM_OS); cached_memid.initially_committed = true; cached_memid.mem.os.base = &TDO[0]; cached_memid.mem.os.size = nd_size(); cached_memid.initially_zero = nd_bool();
    TDO[0].memid = cached_memid;
    td_cache[SLOT] = &TDO[0];
  }
}

#ifdef HARNESS_h_td_zalloc
void h_td_zalloc(void) {
  make_cache();
  mi_thread_data_t* td = mi_thread_data_zalloc();
  if (td == NULL) { CHECK(!cache_has && n_os_alloc == 2 && n_err == 1 && last_err == ENOMEM, "C07: thread metadata failure is reported (ENOMEM) after two attempts");
#if !defined(CACHEHAS) || CACHEHAS == 0
    WITNESS("out of memory");
#endif
    return; }
  uint64_t* w = (uint64_t*)td;
  for (size_t i = 0; i < offsetof(mi_thread_data_t, memid) / 8; i++) CHECK(w[i] == 0, "thread metadata is zero initialised (heap and tld)");
  if (cache_has) {
    CHECK(td == &TDO[0] && n_os_alloc == 0 && td_cache[SLOT] == NULL, "a cached block is reused and leaves the cache");
    CHECK(memid_eq(td->memid, cached_memid) && td->memid.memkind == MI_MEM_OS, "C11: a reused metadata block keeps the memid of its OS allocation (so it can be unmapped later)");
#if !defined(CACHEHAS) || CACHEHAS == 1
    WITNESS("from cache");
#endif
  } else {
    CHECK(td == &TDO[1] && memid_eq(td->memid, fresh_memid), "a fresh block records the memid of its OS allocation");
#if !defined(CACHEHAS) || CACHEHAS == 0
    WITNESS("from OS");
#endif
  }
}
#endif

#ifdef HARNESS_h_td_free
void h_td_free(void) {
  make_cache();
  bool full = nd_bool();
  if (full) { for (int i = 0; i < TD_CACHE_SIZE; i++) if (td_cache[i] == NULL) td_cache[i] = (mi_thread_data_t*)(uintptr_t)(0x1000 + 64 * i); }    /* cache completely occupied by other blocks */
  mi_memid_t m = _mi_memid_create(MI_MEM_OS); m.mem.os.base = &TDO[1]; m.mem.os.size = nd_size(); m.initially_committed = true;
  TDO[1].memid = m;
  mi_thread_data_free(&TDO[1]);
  bool in_cache = false; for (int i = 0; i < TD_CACHE_SIZE; i++) if (td_cache[i] == &TDO[1]) in_cache = true;
  if (full) { CHECK(!in_cache && n_os_free == 1 && freed_p[0] == &TDO[1] && freed_size[0] == sizeof(mi_thread_data_t) && memid_eq(freed_memid[0], m), "C11: with a full cache the block is unmapped with its own memid"); WITNESS("freed"); }
  else { CHECK(in_cache && n_os_free == 0, "the block is kept in the cache"); CHECK(memid_eq(TDO[1].memid, m), "cached block keeps its memid"); WITNESS("cached"); }
}
#endif

#ifdef HARNESS_h_td_collect
void h_td_collect(void) {
  make_cache();
  _mi_thread_data_collect();
  for (int i = 0; i < TD_CACHE_SIZE; i++) CHECK(td_cache[i] == NULL, "C11: the cache is empty after a collect");
  if (cache_has) { CHECK(n_os_free == 1 && freed_p[0] == &TDO[0] && freed_size[0] == sizeof(mi_thread_data_t), "C11: every cached metadata block is unmapped"); CHECK(memid_eq(freed_memid[0], cached_memid) && freed_memid[0].memkind == MI_MEM_OS, "C11: ... with the memid of its OS allocation"); WITNESS("freed"); }
  else CHECK(n_os_free == 0, "nothing to free");
  WITNESS("end");
}
#endif
#ifdef HARNESS_h_thread_heap_done
/* C09 (thread exit): _mi_thread_heap_done on a thread with two extra heaps besides its backing heap (list order concrete: ORDER).
   The default heap is switched away first; every non-backing heap is deleted exactly once (so its pages migrate to the backing
   heap: C10.heap_delete) BEFORE the backing heap abandons its pages; the backing heap itself is never deleted; the thread
   metadata is released exactly once and last; the main thread neither abandons nor frees.  Heap deletion, abandonment and the
   release of the metadata are recording stubs (decided by C10.heap_delete, C09.collect_abandon, C11.td_free). */
static mi_thread_data_t TDX; static mi_heap_t X1, X2;
static int step, n_del, n_aband, n_tdfree, n_statsdone, del_step[2], aband_step, tdfree_step, default_reset_step; static mi_heap_t* deleted[2];
static bool is_main;
void _mi_prim_thread_associate_default_heap(mi_heap_t* heap) { if (default_reset_step == 0) default_reset_step = ++step; }
void mi_heap_delete(mi_heap_t* h) {
  CHECK(h == &X1 || h == &X2, "C09: only non-backing heaps are deleted at thread exit");
  if (n_del < 2) { deleted[n_del] = h; del_step[n_del] = ++step; } n_del++;
  /* as the real mi_heap_free: unlink from the thread's heap list */
  mi_heap_t* prev = NULL; mi_heap_t* c = h->tld->heaps; for (int k = 0; k < 4 && c != h && c != NULL; k++) { prev = c; c = c->next; }
  if (c == h) { if (prev != NULL) prev->next = h->next; else h->tld->heaps = h->next; }
}
void _mi_heap_collect_abandon(mi_heap_t* h) { n_aband++; aband_step = ++step; CHECK(n_del == 2, "C09: the backing heap abandons its pages only after every other heap of the thread was merged into it"); CHECK(h->tld->heaps == h && h->next == NULL, "the backing heap is the only heap left"); }
void _mi_stats_done(mi_stats_t* stats) { n_statsdone++; }
void stub_thread_data_free(mi_thread_data_t* td) { n_tdfree++; tdfree_step = ++step; CHECK(td == &TDX || (is_main), "the metadata block that holds the backing heap"); }
void h_thread_heap_done(void) {
  is_main = nd_bool(); _mi_heap_main.thread_id = is_main ? verif_tid() : verif_tid() + 1;      /* _mi_is_main_thread() compares against the calling thread's id */
  mi_heap_t* bk = is_main ? &_mi_heap_main : &TDX.heap; mi_tld_t* tld = is_main ? &tld_main : &TDX.tld;
  _mi_memcpy_aligned(&X1, &_mi_heap_empty, sizeof(mi_heap_t)); _mi_memcpy_aligned(&X2, &_mi_heap_empty, sizeof(mi_heap_t));
  if (!is_main) _mi_memcpy_aligned(bk, &_mi_heap_empty, sizeof(mi_heap_t));
  bk->tld = tld; X1.tld = tld; X2.tld = tld; tld->heap_backing = bk; bk->cookie = X1.cookie = X2.cookie = 1;
#if ORDER == 0
  tld->heaps = &X1; X1.next = &X2; X2.next = bk; bk->next = NULL;
#elif ORDER == 1
  tld->heaps = &X1; X1.next = bk; bk->next = &X2; X2.next = NULL;
#else
  tld->heaps = bk; bk->next = &X2; X2.next = &X1; X1.next = NULL;
#endif
  mi_heap_t* start = (nd_bool() ? &X1 : bk);          /* the thread's current default heap */
  _mi_heap_default = start;
  bool r = _mi_thread_heap_done(start);
  CHECK(!r, "an initialised heap is torn down");
  CHECK(default_reset_step == 1, "C09: the default heap is switched away before anything is torn down");
  CHECK(_mi_heap_default == (is_main ? &_mi_heap_main : (mi_heap_t*)&_mi_heap_empty), "the exiting thread no longer allocates from the dying heap");
  CHECK(n_del == 2 && deleted[0] != deleted[1], "C09: every non-backing heap is deleted exactly once");
  CHECK(tld->heaps == bk && bk->next == NULL, "only the backing heap remains on the list");
  CHECK(n_statsdone == 1, "statistics merged once");
  if (is_main) { CHECK(n_aband == 0 && n_tdfree == 0, "the main thread keeps its heap and metadata"); WITNESS("main"); }
  else { CHECK(n_aband == 1 && n_tdfree == 1 && aband_step > del_step[1] && tdfree_step > aband_step && tdfree_step == step, "C09/C11: pages are abandoned once, then the thread metadata is released once, as the last step"); WITNESS("worker"); }
}
#endif

#ifdef VERIF_REPLAY
int main(void) { VERIF_ENTRY(); return 0; }
#endif
