/* init.c: thread metadata cache (C11: thread metadata obtained from the OS is given back with its own memid; C07: allocation
   failure is reported, not crashed on).  _mi_os_alloc / _mi_os_free are recording stubs; atomics sequential. */
#include "verif.h"
#include "mimalloc.h"
#include "mimalloc/internal.h"
#include "mimalloc/atomic.h"
#include "mimalloc/prim.h"
#include <errno.h>
void* __builtin_assume_aligned(const void* p, size_t a, ...) { return (void*)p; }
#include "seq_atomics.h"
#include "init.c"

static int n_err, last_err;
void _mi_error_message(int err, const char* fmt, ...) { n_err++; last_err = err; }
void _mi_warning_message(const char* fmt, ...) { }
void _mi_verbose_message(const char* fmt, ...) { }

static mi_thread_data_t TDO[2] __attribute__((aligned(64)));
static int n_os_alloc, n_os_free; static void* freed_p[2]; static mi_memid_t freed_memid[2]; static size_t freed_size[2];
static mi_memid_t fresh_memid;
void* _mi_os_alloc(size_t size, mi_memid_t* memid) {
  n_os_alloc++;
  CHECK(size == sizeof(mi_thread_data_t), "thread metadata size");
  *memid = _mi_memid_none();
  if (nd_bool()) return NULL;                            /* the OS may refuse */
  *memid = _mi_memid_create(MI_MEM_OS); memid->initially_committed = true; memid->initially_zero = nd_bool(); memid->mem.os.base = &TDO[1]; memid->mem.os.size = nd_size();
  fresh_memid = *memid;
  if (memid->initially_zero) { uint64_t* w = (uint64_t*)&TDO[1]; for (size_t i = 0; i < sizeof(mi_thread_data_t) / 8; i++) w[i] = 0; }
  return &TDO[1];
}
void _mi_os_free(void* p, size_t size, mi_memid_t memid) { if (n_os_free < 2) { freed_p[n_os_free] = p; freed_memid[n_os_free] = memid; freed_size[n_os_free] = size; } n_os_free++; }
static bool memid_eq(mi_memid_t a, mi_memid_t b) { return a.memkind == b.memkind && a.mem.os.base == b.mem.os.base && a.mem.os.size == b.mem.os.size && a.initially_committed == b.initially_committed && a.is_pinned == b.is_pinned; }

#ifndef SLOT
#define SLOT 5
#endif
static mi_memid_t cached_memid;
static bool cache_has;
static void make_cache(void) {
#ifdef CACHEHAS
  cache_has = (CACHEHAS != 0);        /* enumerated by the driver where the block pointer must stay concrete */
#else
  cache_has = nd_bool();
#endif
  if (cache_has) {
    uint64_t* w = (uint64_t*)&TDO[0]; for (size_t i = 0; i < sizeof(mi_thread_data_t) / 8; i++) w[i] = nd_u64();      /* a used (dirty) block */
    cached_memid = _mi_memid_create(MI_MEM_OS); cached_memid.initially_committed = true; cached_memid.mem.os.base = &TDO[0]; cached_memid.mem.os.size = nd_size(); cached_memid.initially_zero = nd_bool();
    TDO[0].memid = cached_memid;
    td_cache[SLOT] = &TDO[0];
  }
}

#ifdef HARNESS_h_td_zalloc
void h_td_zalloc(void) {
  make_cache();
  mi_thread_data_t* td = mi_thread_data_zalloc();
  if (td == NULL) { CHECK(!cache_has && n_os_alloc == 2 && n_err == 1 && last_err == ENOMEM, "C07: thread metadata failure is reported (ENOMEM) after two attempts");
#if !defined(CACHEHAS) || CACHEHAS == 0
    WITNESS("out of memory");
#endif
    return; }
  uint64_t* w = (uint64_t*)td;
  for (size_t i = 0; i < offsetof(mi_thread_data_t, memid) / 8; i++) CHECK(w[i] == 0, "thread metadata is zero initialised (heap and tld)");
  if (cache_has) {
    CHECK(td == &TDO[0] && n_os_alloc == 0 && td_cache[SLOT] == NULL, "a cached block is reused and leaves the cache");
    CHECK(memid_eq(td->memid, cached_memid) && td->memid.memkind == MI_MEM_OS, "C11: a reused metadata block keeps the memid of its OS allocation (so it can be unmapped later)");
#if !defined(CACHEHAS) || CACHEHAS == 1
    WITNESS("from cache");
#endif
  } else {
    CHECK(td == &TDO[1] && memid_eq(td->memid, fresh_memid), "a fresh block records the memid of its OS allocation");
#if !defined(CACHEHAS) || CACHEHAS == 0
    WITNESS("from OS");
#endif
  }
}
#endif

#ifdef HARNESS_h_td_free
void h_td_free(void) {
  make_cache();
  bool full = nd_bool();
  if (full) { for (int i = 0; i < TD_CACHE_SIZE; i++) if (td_cache[i] == NULL) td_cache[i] = (mi_thread_data_t*)(uintptr_t)(0x1000 + 64 * i); }    /* cache completely occupied by other blocks */
  mi_memid_t m = _mi_memid_create(MI_MEM_OS); m.mem.os.base = &TDO[1]; m.mem.os.size = nd_size(); m.initially_committed = true;
  TDO[1].memid = m;
  mi_thread_data_free(&TDO[1]);
  bool in_cache = false; for (int i = 0; i < TD_CACHE_SIZE; i++) if (td_cache[i] == &TDO[1]) in_cache = true;
  if (full) { CHECK(!in_cache && n_os_free == 1 && freed_p[0] == &TDO[1] && freed_size[0] == sizeof(mi_thread_data_t) && memid_eq(freed_memid[0], m), "C11: with a full cache the block is unmapped with its own memid"); WITNESS("freed"); }
  else { CHECK(in_cache && n_os_free == 0, "the block is kept in the cache"); CHECK(memid_eq(TDO[1].memid, m), "cached block keeps its memid"); WITNESS("cached"); }
}
#endif

#ifdef HARNESS_h_td_collect
void h_td_collect(void) {
  make_cache();
  _mi_thread_data_collect();
  for (int i = 0; i < TD_CACHE_SIZE; i++) CHECK(td_cache[i] == NULL, "C11: the cache is empty after a collect");
  if (cache_has) { CHECK(n_os_free == 1 && freed_p[0] == &TDO[0] && freed_size[0] == sizeof(mi_thread_data_t), "C11: every cached metadata block is unmapped"); CHECK(memid_eq(freed_memid[0], cached_memid) && freed_memid[0].memkind == MI_MEM_OS, "C11: ... with the memid of its OS allocation"); WITNESS("freed"); }
  else CHECK(n_os_free == 0, "nothing to free");
  WITNESS("end");
}
#endif
#ifdef VERIF_REPLAY
int main(void) { VERIF_ENTRY(); return 0; }
#endif
