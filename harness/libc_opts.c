/* C20: bounded string helpers, the allocator's own printf, option parsing from the environment, statistics buffers.
   Real code: libc.c (_mi_strlcpy/_mi_strlcat/_mi_strnlen/_mi_strnicmp/_mi_vsnprintf), options.c (mi_option_init,
   mi_option_get/set/get_size/get_clamp, mi_out_buf), stats.c (mi_heap_buf_print / mi_heap_buf_expand).
   Environment: _mi_prim_getenv returns an arbitrary string; strtol/strstr are reference implementations in the harness. */
#include "verif.h"
#include "mimalloc.h"
#include "mimalloc/internal.h"
#include "mimalloc/atomic.h"
#include "mimalloc/prim.h"
#include <stdarg.h>
#include <limits.h>
#include <errno.h>
void* __builtin_assume_aligned(const void* p, size_t a, ...) { return (void*)p; }
#include "seq_atomics.h"

/* ---- reference libc pieces used by options.c ---- */
#define strtol ref_strtol
#define strstr ref_strstr
static long ref_strtol(const char* s, char** end, int base) {
  const char* p = s; bool neg = false; unsigned long acc = 0; bool any = false, ovf = false;
  while (*p == ' ' || (*p >= '\t' && *p <= '\r')) p++;
  if (*p == '+' || *p == '-') { neg = (*p == '-'); p++; }
  while (*p >= '0' && *p <= '9') {
    unsigned d = (unsigned)(*p - '0'); any = true;
    if (acc > (ULONG_MAX - d) / 10) ovf = true; else acc = acc * 10 + d;
    p++;
  }
  if (end != NULL) *end = (char*)(any ? p : s);
  if (!any) return 0;
  if (ovf || (!neg && acc > (unsigned long)LONG_MAX) || (neg && acc > (unsigned long)LONG_MAX + 1)) return neg ? LONG_MIN : LONG_MAX;
  return neg ? (long)(0 - acc) : (long)acc;
}
static char* ref_strstr(const char* h, const char* n) {
  if (*n == 0) return (char*)h;
  for (; *h != 0; h++) { const char* a = h; const char* b = n; while (*a != 0 && *b != 0 && *a == *b) { a++; b++; } if (*b == 0) return (char*)h; }
  return NULL;
}

#include "libc.c"
#include "options.c"

/* message functions (same TU as the option code): cut with --replace-calls; output formatting is decided by h_vsnprintf */
static int n_warn, msg_depth;
void stub_message(const char* fmt, ...) {
  /* contract of the real message functions: they consult the verbose / show_errors options before printing */
  n_warn++; msg_depth++;
  CHECK(msg_depth <= 3, "C20: option initialisation does not recurse through its own warning message (would overflow the stack)");
  if (msg_depth <= 3) { (void)mi_option_get(mi_option_verbose); (void)mi_option_get(mi_option_show_errors); }
  msg_depth--;
}
/* ---- environment ---- */
#ifndef ENVLEN
#define ENVLEN 6
#endif
static char ENVVAL[ENVLEN + 1];
static bool env_present;
static int n_getenv;
bool _mi_prim_getenv(const char* name, char* result, size_t result_size) {
  n_getenv++;
  CHECK(result_size >= 64, "getenv buffer as documented");
  if (!env_present) return false;
  for (size_t i = 0; i <= ENVLEN; i++) result[i] = ENVVAL[i];
  return true;
}
void _mi_prim_out_stderr(const char* msg) { }
bool _mi_preloading(void) { return false; }
bool _mi_is_main_thread(void) { return true; }
mi_threadid_t _mi_thread_id(void) mi_attr_noexcept { return 1; }
void _mi_stats_print(mi_stats_t* stats, mi_output_fun* out, void* arg) { }
mi_stats_t _mi_stats_main;
size_t _mi_os_page_size(void) { return 4096; }
bool _mi_os_has_overcommit(void) { return true; }
static bool recursing;
bool _mi_recurse_enter_prim(void) { if (recursing) return false; recursing = true; return true; }
void _mi_recurse_exit_prim(void) { recursing = false; }

/* ---------------------------------------------------------------------------------- */
#ifdef HARNESS_h_strl
#define DN 8
void h_strl(void) {
  struct { char pre[4]; char d[DN]; char post[4]; } B;
  char src[12];
  for (int i = 0; i < 4; i++) { B.pre[i] = 0x55; B.post[i] = 0x55; }
  for (int i = 0; i < DN; i++) B.d[i] = (char)nd_u8();
  for (int i = 0; i < 11; i++) src[i] = (char)nd_u8(); src[11] = 0;
  size_t n = nd_range(0, DN);
  char snap[DN]; for (int i = 0; i < DN; i++) snap[i] = B.d[i];
  bool cat = nd_bool();
  if (cat) _mi_strlcat(B.d, src, n); else _mi_strlcpy(B.d, src, n);
  for (int i = 0; i < 4; i++) CHECK(B.pre[i] == 0x55 && B.post[i] == 0x55, "no write outside the destination object");
  for (size_t i = 0; i < DN; i++) { if (i >= n) CHECK(B.d[i] == snap[i], "no write at or beyond dest_size"); }
  if (n > 0) { bool term = false; for (size_t i = 0; i < DN; i++) { if (i < n && B.d[i] == 0) term = true; } CHECK(term, "result is NUL terminated inside dest_size"); }
  if (!cat && n > 0) { size_t l = _mi_strlen(src); size_t k = (l < n - 1 ? l : n - 1); for (size_t i = 0; i < DN; i++) { if (i < k) CHECK(B.d[i] == src[i], "copies the longest prefix that fits"); } CHECK(B.d[k] == 0, "terminator right after the copied prefix"); }
  CHECK(_mi_strnlen(src, 5) <= 5 && _mi_strnlen(src, 5) <= _mi_strlen(src), "_mi_strnlen bounded");
  CHECK(_mi_strnicmp(src, src, 11) == 0, "_mi_strnicmp reflexive");
  WITNESS("end");
}
#endif

#ifdef HARNESS_h_vsnprintf
/* every format string of FMTLEN bytes, every buffer size 0..BUFN: no write outside [buf,buf+bufsize), terminated, return < bufsize */
#ifndef FMTLEN
#define FMTLEN 3
#endif
#define BUFN 12
#ifndef POSTN
#define POSTN 112      /* the code forms `start+len+width` before comparing with `end`: keep that address inside the enclosing object (as on a real stack/heap) */
#endif
static void check_guard(const char* g, size_t n) { for (size_t i = 0; i < n; i++) CHECK(g[i] == 0x55, "no write outside the buffer object"); }
void h_vsnprintf(void) {
  struct { char pre[4]; char b[BUFN]; char post[POSTN]; } B;
  char fmt[FMTLEN + 1];
  for (int i = 0; i < 4; i++) { B.pre[i] = 0x55; }
  for (int i = 0; i < POSTN; i++) { B.post[i] = 0x55; }
  for (int i = 0; i < BUFN; i++) B.b[i] = 0x77;
  for (int i = 0; i < FMTLEN; i++) fmt[i] = (char)nd_u8(); fmt[FMTLEN] = 0;
  size_t n = nd_range(0, BUFN);
  int r;
#ifdef WITH_STRINGS
  char s1[5]; for (int i = 0; i < 4; i++) s1[i] = (char)nd_u8(); s1[4] = 0;
  r = _mi_snprintf(B.b, n, fmt, s1, s1, s1);            /* every conversion receives a valid string */
#else
  for (int i = 0; i < FMTLEN; i++) ASSUME(fmt[i] != 's');  /* numeric / literal formats with arbitrary 64-bit arguments */
  uint64_t a1 = nd_u64(), a2 = nd_u64(), a3 = nd_u64();
#ifdef ARGMAX
  ASSUME(a1 <= ARGMAX && a2 <= ARGMAX && a3 <= ARGMAX);      /* bounds the digit loop (unwinding assertion checks it) */
#endif
  r = _mi_snprintf(B.b, n, fmt, a1, a2, a3);
#endif
  check_guard(B.pre, 4); check_guard(B.post, POSTN);
  for (size_t i = 0; i < BUFN; i++) { if (i >= n) CHECK(B.b[i] == 0x77, "no write at or beyond bufsize"); }
  if (n > 0) { CHECK(r >= 0 && (size_t)r < n, "return value < bufsize"); CHECK(B.b[r] == 0, "terminator at the returned length"); }
  else CHECK(r == 0, "bufsize 0 writes nothing");
  WITNESS("end");
}
#endif

#ifdef HARNESS_h_option_env
/* every option, every environment string of <= ENVLEN characters: parsed value equals the documented grammar, malformed
   values keep the default; OPT selects the option (driver) */
#ifndef OPT
#define OPT mi_option_purge_delay
#endif
static bool is_word(const char* u, const char* w) { size_t i = 0; for (; w[i] != 0; i++) if (u[i] != w[i]) return false; return u[i] == 0; }
void h_option_env(void) {
  env_present = nd_bool();
  for (int i = 0; i < ENVLEN; i++) ENVVAL[i] = (char)nd_u8(); ENVVAL[ENVLEN] = 0;
  mi_option_t opt = (mi_option_t)OPT;
  mi_option_desc_t* d = &options[opt];
  CHECK(d->option == opt, "option table index matches");
  long dflt = d->value;
  ASSUME(d->init == UNINIT);
  long v = mi_option_get(opt);
  CHECK(d->init != UNINIT, "option is initialised after the first read");
  CHECK(mi_option_get(opt) == v, "reading twice gives the same value");
  if (!env_present) { CHECK(v == dflt && d->init == DEFAULTED, "no environment variable: default"); WITNESS("absent"); return; }
  char u[ENVLEN + 1]; for (int i = 0; i <= ENVLEN; i++) u[i] = _mi_toupper(ENVVAL[i]);
  if (u[0] == 0 || is_word(u, "1") || is_word(u, "TRUE") || is_word(u, "YES") || is_word(u, "ON")) { CHECK(v == 1, "boolean true words (and the empty value) enable"); WITNESS("true"); }
  else if (is_word(u, "0") || is_word(u, "FALSE") || is_word(u, "NO") || is_word(u, "OFF")) { CHECK(v == 0, "boolean false words disable"); WITNESS("false"); }
  else {
    char* end = u; long num = ref_strtol(u, &end, 10);
    bool wellformed = false; long expect = 0;
    if (!mi_option_has_size_in_kib(opt)) { wellformed = (end != u || true) && (*end == 0) && (end != u); expect = num; }
    else {
      /* sizes: <digits>[K|M|G|T][iB|B]; stored in KiB; saturating */
      unsigned __int128 kib = (num < 0 ? 0 : (unsigned __int128)num);
      const char* e = end;
      if (*e == 'K') { e++; } else if (*e == 'M') { kib *= 1024; e++; } else if (*e == 'G') { kib *= 1024 * 1024; e++; } else if (*e == 'T') { kib *= (unsigned __int128)1024 * 1024 * 1024; e++; }
      else { kib = (kib + 1023) / 1024; }
      if (e[0] == 'I' && e[1] == 'B') e += 2; else if (*e == 'B') e++;
      wellformed = (*e == 0) && (end != u);
      /* saturation: values above the limit (the code compares the KiB count with MI_MAX_ALLOC_SIZE) or overflowing products
         are replaced by MI_MAX_ALLOC_SIZE/KiB */
      if (kib > (unsigned __int128)MI_MAX_ALLOC_SIZE) kib = (unsigned __int128)MI_MAX_ALLOC_SIZE / 1024;
      expect = (long)kib;
    }
    if (wellformed) {
      CHECK(v == expect, "numeric / size value parses to the documented value (sizes in KiB, saturating)");
      if (mi_option_has_size_in_kib(opt)) CHECK(mi_option_get_size(opt) == (size_t)expect * 1024 && mi_option_get_size(opt) / 1024 == (size_t)expect, "mi_option_get_size returns the byte size without wrapping");
      WITNESS("number");
    } else {
      CHECK(v == dflt, "a malformed value leaves the default in place");
      CHECK(d->init == DEFAULTED, "a malformed value is recorded as defaulted");
      WITNESS("malformed");
    }
  }
}
#endif

#ifdef HARNESS_h_option_setget
void h_option_setget(void) {
  long idx = nd_long(); long val = nd_long();
  ASSUME(idx >= -3 && idx <= (long)_mi_option_last + 3);
  for (int i = 0; i < _mi_option_last; i++) options[i].init = INITIALIZED;   /* environment parsing is h_option_env */
  mi_option_set((mi_option_t)idx, val);
  long r = mi_option_get((mi_option_t)idx);
  if (idx >= 0 && idx < _mi_option_last) { CHECK(r == val, "mi_option_set then mi_option_get round-trips"); CHECK(mi_option_get_clamp((mi_option_t)idx, -5, 5) >= -5 && mi_option_get_clamp((mi_option_t)idx, -5, 5) <= 5, "clamp"); CHECK(mi_option_is_enabled((mi_option_t)idx) == (val != 0), "is_enabled"); WITNESS("valid"); }
  else { CHECK(r == 0, "out-of-range option reads 0 and is ignored on set"); WITNESS("out of range"); }
  for (int i = 0; i < _mi_option_last; i++) CHECK(options[i].option == (mi_option_t)i, "option table is indexed by option");
}
#endif

#ifdef HARNESS_h_out_buf
/* delayed output buffer: arbitrary fill level, message of <= 8 chars */
void h_out_buf(void) {
  size_t len0 = nd_size(); ASSUME(len0 <= MI_MAX_DELAY_OUTPUT + 20);
  out_len = len0;
  char msg[9]; for (int i = 0; i < 8; i++) msg[i] = (char)nd_u8(); msg[8] = 0;
  mi_out_buf(msg, NULL);
  /* memory safety: CBMC's bounds checks on out_buf[] decide; functional: */
  CHECK(out_len >= len0, "length only grows");
  size_t n = _mi_strlen(msg);
  if (len0 < MI_MAX_DELAY_OUTPUT && n > 0 && len0 + n < MI_MAX_DELAY_OUTPUT) { for (size_t i = 0; i < 8; i++) { if (i < n) CHECK(out_buf[len0 + i] == msg[i], "message stored at the claimed position"); } WITNESS("stored"); }
  WITNESS("end");
}
#endif

#ifdef VERIF_REPLAY
int main(void) { VERIF_ENTRY(); return 0; }
#endif
