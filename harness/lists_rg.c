/* C02 / C08: cross-thread free lists under rely/guarantee sequentialisation (see bitmap_rg.c for the scheme).
   Shared words: page->xthread_free (list head | 2 flag bits) and heap->thread_delayed_free (list head).
   Before every atomic access of the function under test, "all other threads" take up to IBUDGET steps, each one of:
     - a remote thread pushes one of its own live blocks on the page list (only when the flag is not USE_DELAYED_FREE)
     - a remote thread claims the delayed-freeing hand-shake (USE -> FREEING), later pushes its block on the heap's
       delayed list and resets the flag to NO_DELAYED_FREE
     - the owner takes over the whole page list / the whole delayed list with one CAS
     - the owner changes the flag among USE / NO / NEVER (never while FREEING)
   Ghost state: loc[b] says where each block is; every successful CAS of the function under test is checked to be one of
   the transitions it is allowed to make (guarantee) with a consistent link word. */
#include "verif.h"
#include "mimalloc.h"
#include "mimalloc/internal.h"
#include "mimalloc/atomic.h"
#include "mimalloc/prim.h"
void* __builtin_assume_aligned(const void* p, size_t a, ...) { return (void*)p; }
static inline mi_threadid_t verif_tid(void) { return 0x2000; }

#ifndef IBUDGET
#define IBUDGET 2
#endif
#define NBLK 4
enum { L_MINE = 0, L_OTHER_LIVE = 1, L_TF = 2, L_DL = 3, L_OWNER = 4 };
static uint64_t BLK[NBLK][2];             /* blocks: word 0 is the link */
static uint8_t loc[NBLK];
static mi_page_t PG; static mi_heap_t HP;
static int ibudget = IBUDGET;
static int sbudget = 2;                   /* bound on spurious weak-CAS failures (bounds the retry loops) */
static bool other_freeing;                /* a remote thread holds the DELAYED_FREEING hand-shake */
static int other_freeing_blk;
static bool me_freeing;                   /* the function under test holds it */
static int my_tf_pushes, my_dl_pushes, my_takes_tf, my_takes_dl;
static size_t taken_tf_mask, taken_dl_mask;   /* blocks on the list at the moment the function under test took it over */

static inline mi_block_t* B(int i) { return (mi_block_t*)&BLK[i][0]; }
static int bidx(const void* p) { for (int i = 0; i < NBLK; i++) if (p == (void*)B(i)) return i; return -1; }
static size_t locmask(uint8_t l) { size_t m = 0; for (int i = 0; i < NBLK; i++) if (loc[i] == l) m |= (size_t)1 << i; return m; }
static mi_block_t* tf_head(uintptr_t w) { return (mi_block_t*)(w & ~(uintptr_t)3); }

/* ---- interference on the page word ---- */
static void interfere_page(uintptr_t* p) {
  for (int step = 0; step < IBUDGET; step++) {
    if (ibudget <= 0 || !nd_bool()) return;
    ibudget--;
    uintptr_t w = *p; uintptr_t fl = w & 3;
    uint8_t what = nd_u8() % 5;
    if (what == 0) {                                   /* remote push on the page list */
      int b = nd_u8() % NBLK;
      if (loc[b] == L_OTHER_LIVE && fl != MI_USE_DELAYED_FREE) { BLK[b][0] = (uint64_t)tf_head(w); *p = (uintptr_t)B(b) | fl; loc[b] = L_TF; }
    } else if (what == 1) {                            /* remote claims the hand-shake */
      int b = nd_u8() % NBLK;
      if (loc[b] == L_OTHER_LIVE && fl == MI_USE_DELAYED_FREE && !other_freeing && !me_freeing) { *p = (w & ~(uintptr_t)3) | MI_DELAYED_FREEING; other_freeing = true; other_freeing_blk = b; }
    } else if (what == 2) {                            /* remote completes: block on the delayed list, flag reset */
      if (other_freeing) { int b = other_freeing_blk; BLK[b][0] = (uint64_t)(uintptr_t)HP.thread_delayed_free; HP.thread_delayed_free = B(b); loc[b] = L_DL; *p = (w & ~(uintptr_t)3) | MI_NO_DELAYED_FREE; other_freeing = false; }
    } else if (what == 3) {                            /* owner takes the page list */
      for (int i = 0; i < NBLK; i++) if (loc[i] == L_TF) loc[i] = L_OWNER;
      *p = fl;
    } else {                                           /* owner changes the flag (never while FREEING) */
      if (fl != MI_DELAYED_FREEING) { uintptr_t nf = nd_u8() & 3; if (nf != MI_DELAYED_FREEING) *p = (w & ~(uintptr_t)3) | nf; }
    }
  }
}
static void interfere_dl(void** p) {
  for (int step = 0; step < IBUDGET; step++) {
    if (ibudget <= 0 || !nd_bool()) return;
    ibudget--;
    if (nd_bool()) { for (int i = 0; i < NBLK; i++) if (loc[i] == L_DL) loc[i] = L_OWNER; *p = NULL; }      /* owner drains the delayed list */
    else if (other_freeing) { int b = other_freeing_blk; BLK[b][0] = (uint64_t)(uintptr_t)*p; *p = B(b); loc[b] = L_DL; other_freeing = false;
                              uintptr_t w = PG.xthread_free; PG.xthread_free = (w & ~(uintptr_t)3) | MI_NO_DELAYED_FREE; }
  }
}

/* ---- interposed atomics ---- */
static uintptr_t rg_load_page(uintptr_t* p) { interfere_page(p); return *p; }
static bool rg_cas_page(uintptr_t* p, uintptr_t* expected, uintptr_t desired, bool weak) {
  interfere_page(p);
  if (weak && sbudget > 0 && nd_bool()) { sbudget--; *expected = *p; return false; }       /* spurious failure of a weak CAS */
  if (*p != *expected) { *expected = *p; return false; }
  uintptr_t old = *p; uintptr_t of = old & 3, nf = desired & 3;
  mi_block_t* oh = tf_head(old); mi_block_t* nh = tf_head(desired);
  if (nh != oh && nh != NULL) {                                   /* push */
    int b = bidx(nh);
    CHECK(b >= 0 && loc[b] == L_MINE, "guarantee: only a block that this thread is freeing is pushed");
    CHECK(of == nf && of != MI_USE_DELAYED_FREE && of != MI_DELAYED_FREEING || (of == nf && of == MI_DELAYED_FREEING && !me_freeing), "guarantee: a push keeps the flag and is not done while the first-free hand-shake is required");
    CHECK(of != MI_USE_DELAYED_FREE, "C08: the first remote free into a page with USE_DELAYED_FREE goes to the heap's delayed list (so full pages are noticed)");
    if (b >= 0) { CHECK((mi_block_t*)BLK[b][0] == oh, "C02: the pushed block links to the list head the CAS compared against (no block is cut off)"); loc[b] = L_TF; }
    my_tf_pushes++;
  } else if (nh == NULL && oh != NULL) {                          /* take-over */
    CHECK(of == nf, "take-over keeps the flag");
    taken_tf_mask = locmask(L_TF); for (int i = 0; i < NBLK; i++) if (loc[i] == L_TF) loc[i] = L_OWNER;
    my_takes_tf++;
  } else if (desired == old) {
    /* CAS that changes nothing (e.g. take-over of an empty list) */
  } else {                                                        /* flag transition */
    CHECK(nh == oh, "a flag transition leaves the list untouched");
    if (of == MI_USE_DELAYED_FREE && nf == MI_DELAYED_FREEING) { CHECK(!other_freeing, "only one thread holds the hand-shake"); me_freeing = true; }
    else if (of == MI_DELAYED_FREEING && nf == MI_NO_DELAYED_FREE) { CHECK(me_freeing, "guarantee: only the thread that set DELAYED_FREEING resets it"); me_freeing = false; }
    else if (of == MI_DELAYED_FREEING) { CHECK(false, "guarantee: the flag is not changed while another thread is delayed-freeing"); }
  }
  *p = desired; return true;
}
static void* rg_load_dl(void** p) { interfere_dl(p); return *p; }
static bool rg_cas_dl(void** p, void** expected, void* desired, bool weak) {
  interfere_dl(p);
  if (weak && sbudget > 0 && nd_bool()) { sbudget--; *expected = *p; return false; }
  if (*p != *expected) { *expected = *p; return false; }
  if (desired != NULL) {
    int b = bidx(desired);
    CHECK(b >= 0 && loc[b] == L_MINE, "guarantee: only the block being freed is pushed on the delayed list");
    CHECK(me_freeing, "the delayed list is pushed under the DELAYED_FREEING hand-shake (the heap cannot go away)");
    if (b >= 0) { CHECK((void*)BLK[b][0] == *p, "C02: the pushed block links to the delayed-list head the CAS compared against"); loc[b] = L_DL; }
    my_dl_pushes++;
  } else { taken_dl_mask = locmask(L_DL); for (int i = 0; i < NBLK; i++) if (loc[i] == L_DL) loc[i] = L_OWNER; my_takes_dl++; }
  *p = desired; return true;
}

#include "seq_atomics.h"
/* route the two shared words through the rely/guarantee versions (everything else stays sequential) */
static inline bool is_page_word(void* p) { return p == (void*)&PG.xthread_free; }
static inline bool is_dl_word(void* p) { return p == (void*)&HP.thread_delayed_free; }
#undef mi_atomic_load_relaxed
#undef mi_atomic_load_acquire
#undef mi_atomic_cas_weak_release
#undef mi_atomic_cas_weak_acq_rel
#undef mi_atomic_load_ptr_relaxed
#undef mi_atomic_cas_ptr_weak_release
#undef mi_atomic_cas_ptr_weak_acq_rel
#define mi_atomic_load_relaxed(p)            (is_page_word((void*)(p)) ? rg_load_page((uintptr_t*)(p)) : *(size_t*)(p))
#define mi_atomic_load_acquire(p)            (is_page_word((void*)(p)) ? rg_load_page((uintptr_t*)(p)) : *(size_t*)(p))
#define mi_atomic_cas_weak_release(p,e,d)    (is_page_word((void*)(p)) ? rg_cas_page((uintptr_t*)(p),(uintptr_t*)(e),(uintptr_t)(d),true) : seq_cas((size_t*)(p),(size_t*)(e),(size_t)(d)))
#define mi_atomic_cas_weak_acq_rel(p,e,d)    (is_page_word((void*)(p)) ? rg_cas_page((uintptr_t*)(p),(uintptr_t*)(e),(uintptr_t)(d),true) : seq_cas((size_t*)(p),(size_t*)(e),(size_t)(d)))
#define mi_atomic_load_ptr_relaxed(tp,p)     ((tp*)(is_dl_word((void*)(p)) ? rg_load_dl((void**)(p)) : *(void**)(p)))
#define mi_atomic_cas_ptr_weak_release(tp,p,e,d)  (is_dl_word((void*)(p)) ? rg_cas_dl((void**)(p),(void**)(e),(void*)(d),true) : seq_cas((size_t*)(p),(size_t*)(e),(size_t)(d)))
#define mi_atomic_cas_ptr_weak_acq_rel(tp,p,e,d)  (is_dl_word((void*)(p)) ? rg_cas_dl((void**)(p),(void**)(e),(void*)(d),true) : seq_cas((size_t*)(p),(size_t*)(e),(size_t)(d)))

#include "init.c"
#include "page.c"
#include "alloc.c"

void _mi_error_message(int err, const char* fmt, ...) { }
void _mi_warning_message(const char* fmt, ...) { }
void _mi_verbose_message(const char* fmt, ...) { }
void _mi_trace_message(const char* fmt, ...) { }
long mi_option_get(mi_option_t o) { return nd_long(); }
bool mi_option_is_enabled(mi_option_t o) { return nd_bool(); }
long mi_option_get_clamp(mi_option_t o, long lo, long hi) { return lo; }
size_t _mi_os_page_size(void) { return 4096; }

static size_t delayed_freed_mask; static int delayed_dup;
bool stub_free_delayed_block(mi_block_t* block) {
  int b = bidx(block); CHECK(b >= 0, "a block of the page");
  if (b >= 0) { if (delayed_freed_mask & ((size_t)1 << b)) delayed_dup++; delayed_freed_mask |= (size_t)1 << b; }
  return true;
}

/* initial shared state: arbitrary valid lists */
static void make_state(void) {
  PG.block_size = 16; PG.capacity = NBLK; PG.reserved = NBLK; PG.used = NBLK; PG.page_start = (uint8_t*)BLK;
  mi_atomic_store_release(&PG.xheap, (uintptr_t)&HP);
  HP.thread_id = 0x1000;
  mi_block_t* t = NULL; mi_block_t* d = NULL;
  loc[0] = L_MINE;
  for (int i = NBLK - 1; i >= 1; i--) {
    uint8_t l = nd_u8() % 4; if (l == 0) l = L_OTHER_LIVE; else if (l == 1) l = L_TF; else if (l == 2) l = L_DL; else l = L_OWNER;
    loc[i] = l;
    if (l == L_TF) { BLK[i][0] = (uint64_t)t; t = B(i); }
    if (l == L_DL) { BLK[i][0] = (uint64_t)d; d = B(i); }
  }
  uintptr_t fl = nd_u8() & 3; ASSUME(fl != MI_DELAYED_FREEING);
  if (d != NULL || true) { /* invariant of types.h: NO_DELAYED_FREE => some block of the page is on the delayed list or in flight */ }
  PG.xthread_free = (uintptr_t)t | fl;
  HP.thread_delayed_free = d;
}

#ifdef HARNESS_h_remote_free
/* remote role: mi_free_block_delayed_mt on block 0 */
void h_remote_free(void) {
  make_state();
  BLK[0][0] = nd_u64();                    /* the block's first word is program data */
  size_t others_tf = locmask(L_TF), others_dl = locmask(L_DL);
  mi_free_block_delayed_mt(&PG, B(0));
  CHECK(my_tf_pushes + my_dl_pushes == 1, "C02/C08: the freed block is pushed exactly once, on exactly one list (never lost, never twice)");
  CHECK(loc[0] == L_TF || loc[0] == L_DL || loc[0] == L_OWNER, "C08: the block is on a list the owner will see (or already taken by the owner)");
  CHECK(!me_freeing, "C10: the DELAYED_FREEING hand-shake is released before returning");
  CHECK(my_takes_tf == 0 && my_takes_dl == 0, "a remote free never takes a list over");
  if (my_dl_pushes == 1) { CHECK((PG.xthread_free & 3) != MI_DELAYED_FREEING || other_freeing, "flag reset after the delayed push"); WITNESS("delayed list"); }
  if (my_tf_pushes == 1) WITNESS("page list");
  if (ibudget < IBUDGET) WITNESS("with interference");
}
#endif

#ifdef HARNESS_h_owner_collect
/* owner role: take-over of the page's thread-free list while remote threads keep pushing */
void h_owner_collect(void) {
  make_state(); loc[0] = L_OTHER_LIVE;
  uint16_t used0 = PG.used;
  PG.local_free = NULL; PG.free = NULL;
  _mi_page_thread_free_collect(&PG);
  CHECK(my_takes_tf <= 1 && my_tf_pushes == 0 && my_dl_pushes == 0, "the owner only takes the list over");
  if (my_takes_tf == 1) {
    /* the private list (now local_free) holds exactly the blocks that were on the shared list at the successful CAS */
    size_t m = 0; mi_block_t* b = PG.local_free;
    for (int k = 0; k <= NBLK; k++) { if (b == NULL) break; int i = bidx(b); CHECK(i >= 0 && !(m & ((size_t)1 << i)), "taken list: distinct blocks of the page"); if (i >= 0) m |= (size_t)1 << i; b = (mi_block_t*)BLK[i >= 0 ? i : 0][0]; }
    CHECK(m == taken_tf_mask, "C02/C08: the owner gets exactly the blocks that were on the list when it took it (later pushes go to the new list, none lost)");
    CHECK(PG.used == used0 - (uint16_t)__builtin_popcountll(taken_tf_mask), "C02: used is reduced by exactly the number of blocks taken");
    WITNESS("taken");
  } else { CHECK(PG.used == used0 && PG.local_free == NULL, "nothing taken: nothing changes"); }
  if (ibudget < IBUDGET) WITNESS("with interference");
}
#endif

#ifdef HARNESS_h_owner_delayed
/* owner role: drain of the heap's delayed list while remote threads keep pushing (C08: nothing is lost) */
void h_owner_delayed(void) {
  make_state(); loc[0] = L_OTHER_LIVE;
  bool all = _mi_heap_delayed_free_partial(&HP);
  CHECK(my_takes_dl <= 1, "one take-over");
  CHECK(delayed_dup == 0, "C02: no block is freed twice");
  if (my_takes_dl == 1) { CHECK(delayed_freed_mask == taken_dl_mask, "C08: every block that was on the delayed list when the owner took it is freed (none silently dropped)"); WITNESS("drained"); }
  else CHECK(delayed_freed_mask == 0, "nothing taken: nothing freed");
  CHECK(all, "all taken blocks were processed");
  if (ibudget < IBUDGET) WITNESS("with interference");
}
#endif

#ifdef VERIF_REPLAY
int main(void) { VERIF_ENTRY(); return 0; }
#endif
