/* OS layer (os.c) against nondeterministic prim stubs with a ghost map of the address space.
   C11: alloc -> free round trip unmaps everything; C07: every prim call may fail; C13: page-align rounding;
   C18: _mi_os_purge_ex option logic.  Addresses are integers (never dereferenced). */
#include "verif.h"
#include "mimalloc.h"
#include "mimalloc/internal.h"
#include "mimalloc/prim.h"
void* __builtin_assume_aligned(const void* p, size_t a, ...) { return (void*)p; }

#include "os.c"

void _mi_warning_message(const char* fmt, ...) { }
void _mi_verbose_message(const char* fmt, ...) { }
void _mi_error_message(int err, const char* fmt, ...) { }
void _mi_stat_increase(mi_stat_count_t* stat, size_t amount) { }
void _mi_stat_decrease(mi_stat_count_t* stat, size_t amount) { }
void _mi_stat_counter_increase(mi_stat_counter_t* stat, size_t amount) { }
mi_stats_t _mi_stats_main;
static long opt_purge_delay; static bool opt_purge_decommits;
long mi_option_get(mi_option_t o) { if (o == mi_option_purge_delay) return opt_purge_delay; return nd_long(); }
bool mi_option_is_enabled(mi_option_t o) { if (o == mi_option_purge_decommits) return opt_purge_decommits; return nd_bool(); }
bool _mi_preloading(void) { return false; }
uintptr_t _mi_heap_random_next(mi_heap_t* heap) { return nd_u64(); }
mi_decl_thread mi_heap_t* _mi_heap_default;
mi_msecs_t _mi_clock_start(void) { return 0; }
mi_msecs_t _mi_clock_end(mi_msecs_t s) { return 0; }
size_t _mi_prim_numa_node(void) { return 0; }
size_t _mi_prim_numa_node_count(void) { return 1; }

/* ---- ghost address space: up to NMAP disjoint mapped intervals ---- */
#define NMAP 4
static uintptr_t m_lo[NMAP], m_hi[NMAP]; static bool m_used[NMAP];
static int n_mmap, n_munmap, n_commit, n_decommit, n_reset, n_protect;
static int bad_unmap;
static uintptr_t last_dec_lo, last_dec_hi, last_com_lo, last_com_hi;

static bool ghost_mapped(uintptr_t lo, uintptr_t hi) {   /* [lo,hi) inside one mapped interval */
  for (int i = 0; i < NMAP; i++) if (m_used[i] && lo >= m_lo[i] && hi <= m_hi[i]) return true;
  return false;
}
static bool ghost_empty(void) { for (int i = 0; i < NMAP; i++) if (m_used[i]) return false; return true; }

int _mi_prim_alloc(void* hint, size_t size, size_t try_alignment, bool commit, bool allow_large, bool* is_large, bool* is_zero, void** addr) {
  n_mmap++;
  CHECK(size > 0 && size % 4096 == 0, "mmap: size is a positive page multiple");
  CHECK(try_alignment > 0, "mmap: alignment hint non-zero");
  *is_large = false; *is_zero = nd_bool(); *addr = NULL;
  if (nd_bool()) return 12;                 /* ENOMEM: the OS may refuse */
  uintptr_t a = nd_u64();
  ASSUME(a % 4096 == 0 && a >= 0x10000 && a < ((uintptr_t)1 << 47) && size < ((uintptr_t)1 << 46));
  /* fresh range: disjoint from everything mapped */
  for (int i = 0; i < NMAP; i++) if (m_used[i]) ASSUME(a + size <= m_lo[i] || a >= m_hi[i]);
  int k = -1; for (int i = 0; i < NMAP; i++) if (!m_used[i]) { k = i; break; }
  ASSUME(k >= 0);
  m_used[k] = true; m_lo[k] = a; m_hi[k] = a + size;
  *addr = (void*)a;
  return 0;
}
int _mi_prim_free(void* addr, size_t size) {
  n_munmap++;
  uintptr_t lo = (uintptr_t)addr, hi = lo + size;
  CHECK(size > 0 && lo % 4096 == 0 && size % 4096 == 0, "munmap: page aligned non-empty range");
  if (!mi_os_mem_config.has_partial_free) {
    /* VirtualFree(MEM_RELEASE)-like: needs the exact base of the mapping, releases all of it whatever the size */
    int k0 = -1; for (int i = 0; i < NMAP; i++) if (m_used[i] && lo == m_lo[i]) k0 = i;
    CHECK(k0 >= 0, "release: the address is the base of a mapping made for this allocation");
    if (k0 < 0) { bad_unmap++; return 22; }
    m_used[k0] = false;
    return 0;
  }
  int k = -1; for (int i = 0; i < NMAP; i++) if (m_used[i] && lo >= m_lo[i] && hi <= m_hi[i]) k = i;
  CHECK(k >= 0, "munmap: the range lies inside memory that this allocation mapped (never unmaps foreign memory)");
  if (k < 0) { bad_unmap++; return 22; }
  uintptr_t olo = m_lo[k], ohi = m_hi[k];
  m_used[k] = false;
  if (olo < lo) { int j = -1; for (int i = 0; i < NMAP; i++) if (!m_used[i]) { j = i; break; } ASSUME(j >= 0); m_used[j] = true; m_lo[j] = olo; m_hi[j] = lo; }
  if (hi < ohi) { int j = -1; for (int i = 0; i < NMAP; i++) if (!m_used[i]) { j = i; break; } ASSUME(j >= 0); m_used[j] = true; m_lo[j] = hi; m_hi[j] = ohi; }
  return 0;
}
int _mi_prim_commit(void* addr, size_t size, bool* is_zero) {
  n_commit++; *is_zero = false; last_com_lo = (uintptr_t)addr; last_com_hi = last_com_lo + size;
  CHECK(size > 0 && (uintptr_t)addr % 4096 == 0 && size % 4096 == 0, "commit: page aligned");
  return nd_bool() ? 12 : 0;
}
int _mi_prim_decommit(void* addr, size_t size, bool* needs_recommit) {
  n_decommit++; last_dec_lo = (uintptr_t)addr; last_dec_hi = last_dec_lo + size; *needs_recommit = nd_bool();
  CHECK(size > 0 && (uintptr_t)addr % 4096 == 0 && size % 4096 == 0, "decommit: page aligned");
  return nd_bool() ? 12 : 0;
}
int _mi_prim_reset(void* addr, size_t size) {
  n_reset++; last_dec_lo = (uintptr_t)addr; last_dec_hi = last_dec_lo + size;
  CHECK(size > 0 && (uintptr_t)addr % 4096 == 0 && size % 4096 == 0, "reset: page aligned");
  return nd_bool() ? 12 : 0;
}
int _mi_prim_protect(void* addr, size_t size, bool protect) { n_protect++; return nd_bool() ? 12 : 0; }
int _mi_prim_alloc_huge_os_pages(void* hint_addr, size_t size, int numa_node, bool* is_zero, void** addr) { *addr = NULL; return 12; }
void _mi_prim_mem_init(mi_os_mem_config_t* config) { }

static void os_config(void) {
  mi_os_mem_config.has_partial_free = nd_bool();     /* mmap-like or VirtualAlloc-like */
  mi_os_mem_config.has_overcommit = nd_bool();
  mi_os_mem_config.virtual_address_bits = nd_bool() ? 48 : 40;
}

/* ---------------------------------------------------------------------------------- */
#ifdef HARNESS_h_os_roundtrip
/* VARIANT 0: _mi_os_alloc  1: _mi_os_alloc_aligned  2: _mi_os_alloc_aligned_at_offset */
#ifndef VARIANT
#define VARIANT 0
#endif
void h_os_roundtrip(void) {
  os_config();
  size_t size = nd_size();
  ASSUME(size >= 1 && size <= ((size_t)1 << 40));
  size_t alignment = (size_t)1 << (nd_u8() & 63);
  ASSUME(alignment <= ((size_t)1 << 32));
  bool commit = nd_bool();
  size_t offset = 0;
  mi_memid_t memid;
  void* p;
#if VARIANT == 0
  p = _mi_os_alloc(size, &memid); alignment = 1; commit = true;
#elif VARIANT == 1
  p = _mi_os_alloc_aligned(size, alignment, commit, nd_bool(), &memid);
#else
  offset = nd_size();
  ASSUME(offset <= MI_SEGMENT_SIZE && offset <= size && alignment % 4096 == 0);    /* documented preconditions */
  /* call-site contract (the only caller chain is mi_segment_os_alloc -> _mi_arena_alloc_aligned for huge alignments):
     the offset is the MI_SEGMENT_SIZE-aligned info size, the alignment is the (huge) page alignment >= MI_SEGMENT_SIZE,
     the size is a slice multiple.  For other arguments good_size(size)+extra != good_size(size+extra) is possible: see DESIGN (F3 note) */
  ASSUME(offset % MI_SEGMENT_SIZE == 0 && size % MI_SEGMENT_SLICE_SIZE == 0 && (offset == 0 || alignment >= MI_SEGMENT_SIZE));
  p = _mi_os_alloc_aligned_at_offset(size, alignment, offset, commit, nd_bool(), &memid);
#endif
  if (p == NULL) {
    WITNESS("refused");
    CHECK(ghost_empty(), "C07/C11: a failed OS allocation leaves nothing mapped");
    return;
  }
  WITNESS("allocated");
  uintptr_t a = (uintptr_t)p;
  CHECK(ghost_mapped(a, a + size), "the returned range [p,p+size) is mapped");
  CHECK(((a + offset) % (alignment < 4096 && VARIANT != 0 ? 4096 : alignment)) == 0 || VARIANT == 0, "the returned address honours the alignment (at the offset)");
  CHECK(mi_memkind_is_os(memid.memkind), "memid records an OS allocation");
  CHECK(memid.initially_committed == commit, "memid records the commit state");
  /* ... the caller later frees it with the same size and the memid */
  bool still_committed = nd_bool();
  if (nd_bool()) _mi_os_free_ex(p, size, still_committed, memid); else _mi_os_free(p, size, memid);
  CHECK(bad_unmap == 0, "no unmap outside the allocation");
  CHECK(ghost_empty(), "C11: after _mi_os_free every byte that was mapped for the allocation is unmapped again");
  WITNESS("freed");
}
#endif

#ifdef HARNESS_h_page_align
/* C13: conservative rounding stays inside [addr,addr+size); liberal rounding covers it; both page aligned */
void h_page_align(void) {
  uintptr_t a = nd_u64(); size_t size = nd_size();
  ASSUME(a >= 4096 && a < ((uintptr_t)1 << 47) && size >= 1 && size < ((size_t)1 << 46));
  bool cons = nd_bool();
  size_t ns = 0;
  void* s = mi_os_page_align_areax(cons, (void*)a, size, &ns);
  uintptr_t lo = (uintptr_t)s, hi = lo + ns;
  if (s != NULL) {
    CHECK(lo % 4096 == 0 && ns % 4096 == 0 && ns > 0, "page aligned result");
    if (cons) { CHECK(lo >= a && hi <= a + size, "conservative: result inside the range"); CHECK(lo - a < 4096 && (a + size) - hi < 4096, "conservative: at most a partial page dropped at each end"); WITNESS("conservative"); }
    else { CHECK(lo <= a && hi >= a + size, "liberal: result covers the range"); CHECK(a - lo < 4096 && hi - (a + size) < 4096, "liberal: at most a partial page added at each end"); WITNESS("liberal"); }
  } else {
    CHECK(ns == 0, "empty result has size 0");
    CHECK(cons, "only conservative rounding can be empty");
    CHECK(size < 2 * 4096, "conservative rounding is empty only when no whole page fits");
    WITNESS("empty");
  }
}
#endif

#ifdef HARNESS_h_purge
/* C13/C18: _mi_os_purge_ex: delay<0 -> never touches the OS; decommit or reset only inside the given range;
   _mi_os_commit covers the whole range or reports failure */
void h_purge(void) {
  opt_purge_delay = nd_long(); opt_purge_decommits = nd_bool();
  uintptr_t a = nd_u64(); size_t size = nd_size();
  ASSUME(a >= 4096 && a < ((uintptr_t)1 << 47) && size >= 1 && size < ((size_t)1 << 46));
  bool allow_reset = nd_bool();
  if (nd_bool()) {
    bool r = _mi_os_purge_ex((void*)a, size, allow_reset, size);
    if (opt_purge_delay < 0) { CHECK(n_decommit == 0 && n_reset == 0 && !r, "purge_delay<0: nothing is purged"); WITNESS("disabled"); }
    else {
      CHECK(n_decommit + n_reset <= 1 && n_commit == 0 && n_munmap == 0, "at most one OS purge call");
      if (n_decommit + n_reset == 1) { CHECK(last_dec_lo >= a && last_dec_hi <= a + size, "purge stays inside the given range (conservative rounding)"); WITNESS("purged"); }
      if (opt_purge_decommits) CHECK(n_reset == 0, "decommit mode never resets"); else CHECK(n_decommit == 0 && !r, "reset mode never decommits and needs no recommit");
      if (!opt_purge_decommits && !allow_reset) CHECK(n_reset == 0, "reset only when allowed");
      if (size >= 2 * 4096 && (opt_purge_decommits || allow_reset)) CHECK(n_decommit + n_reset == 1, "a range holding a whole page is purged");
    }
  } else {
    bool z = true;
    bool ok = _mi_os_commit((void*)a, size, &z);
    CHECK(n_commit == 1, "commit reaches the OS");
    CHECK(last_com_lo <= a && last_com_hi >= a + size, "commit covers the whole range (liberal rounding)");
    CHECK(n_decommit == 0 && n_reset == 0 && n_munmap == 0, "commit does nothing else");
    if (!ok) WITNESS("commit refused"); else WITNESS("committed");
  }
}
#endif

#ifdef HARNESS_h_good_alloc_size
void h_good_alloc_size(void) {
  size_t n = nd_size();
  ASSUME(n <= (size_t)PTRDIFF_MAX);
  size_t g = _mi_os_good_alloc_size(n);
  CHECK(g >= n, "good alloc size >= size");
  CHECK(g % 4096 == 0 || n % 4096 != 0 || n == 0 || g == n, "page multiple");
  CHECK(g - n <= n / 8 + 4096, "at most 12.5% waste (plus a page)");
  CHECK(_mi_os_good_alloc_size(g) == g, "idempotent");
  WITNESS("end");
}
#endif

#ifdef VERIF_REPLAY
int main(void) { VERIF_ENTRY(); return 0; }
#endif
