/* Page-level step lemmas on an arbitrary valid page state (Inv_page): C01 (malloc pop / local free / collect / extend),
   C03 (interior pointers: free, usable size), C04 (zeroing pop), C12 (block walk), C17 (double free, padding, corrupted
   links in secure/debug flavours).  Real code: alloc.c (_mi_page_malloc_zero), free.c (mi_free, mi_free_block_local,
   mi_free_generic_local, _mi_usable_size, checks), page.c (_mi_page_free_collect, mi_page_extend_free,
   mi_page_free_list_extend), heap.c (_mi_heap_area_visit_blocks).
   The pointer -> segment -> page lookup is replaced (goto-instrument --replace-calls) by stubs that return the harness'
   segment/page after asserting that the pointer lies in the page area; the lookup arithmetic itself is C16.
   Positions are concrete (block size BS and NBLK from the driver), everything else is symbolic: per block live / free /
   local-free / thread-free, list order ascending or descending, all byte contents, flags, keys, used count. */
#include "verif.h"
#include "mimalloc.h"
#include "mimalloc/internal.h"
#include "mimalloc/atomic.h"
#include "mimalloc/prim.h"
#include <errno.h>
#include <string.h>
void* __builtin_assume_aligned(const void* p, size_t a, ...) { return (void*)p; }
static mi_threadid_t verif_tid_value = 0x1000;
static inline mi_threadid_t verif_tid(void) { return verif_tid_value; }

#include "seq_atomics.h"
#include "init.c"
#include "page.c"
#include "alloc.c"
#include "heap.c"

#ifndef BS
#define BS 32          /* block size (incl. padding in debug builds) */
#endif
#ifndef NBLK
#define NBLK 5
#endif

static int n_err; static int errs[4];
void _mi_error_message(int err, const char* fmt, ...) { if (n_err < 4) errs[n_err] = err; n_err++; }
void _mi_warning_message(const char* fmt, ...) { }
static int n_assert_fail;
void _mi_assert_fail(const char* assertion, const char* fname, unsigned line, const char* func) { n_assert_fail++; }   /* debug builds: internal assertions are recorded */
void _mi_verbose_message(const char* fmt, ...) { }
void _mi_trace_message(const char* fmt, ...) { }
long mi_option_get(mi_option_t o) { return nd_long(); }
bool mi_option_is_enabled(mi_option_t o) { return nd_bool(); }
long mi_option_get_clamp(mi_option_t o, long lo, long hi) { long v = nd_long(); ASSUME(v >= lo && v <= hi); return v; }
size_t mi_option_get_size(mi_option_t o) { return nd_size(); }
size_t _mi_os_page_size(void) { return 4096; }
uintptr_t _mi_random_next(mi_random_ctx_t* ctx) { return nd_u64(); }
void _mi_random_split(mi_random_ctx_t* ctx, mi_random_ctx_t* new_ctx) { }

static struct { mi_segment_t seg; } SEGO;
/* the page area as machine words (free-list links are word accesses; BS is a multiple of 8); one spare block */
#define WPB (BS / 8)
/* the object extends to 65 blocks like the surrounding segment does (the block walk forms `block + 64*bsize`); only the
   first NBLK+1 blocks are ever accessed */
static uint64_t AREAW[65 * WPB] __attribute__((aligned(64)));
#define AREA ((uint8_t*)AREAW)
#define AREA_BYTES ((NBLK + 1) * BS)
static mi_page_t PG;
static mi_heap_t HEAP;
static mi_tld_t TLD;
enum { LIVE = 0, FREE = 1, LOCAL = 2, TFREE = 3 };
static uint8_t st[NBLK];
static bool desc_order;
static int n_retire, n_unfull, n_generic;
static uintptr_t K0, K1;

static inline mi_block_t* blk(size_t i) { return (mi_block_t*)(AREA + i * BS); }
static inline bool in_area(const void* p) { return (const uint8_t*)p >= AREA && (const uint8_t*)p < AREA + NBLK * BS; }
static inline size_t idx_of(const void* p) { return (size_t)((const uint8_t*)p - AREA) / BS; }

/* ---- stubs for the pointer lookup and the layers below ---- */
mi_segment_t* stub_ptr_segment(const void* p) { if (p == NULL) return NULL; return &SEGO.seg; }     /* address arithmetic: C16.ptr_segment */
mi_page_t* stub_segment_page_of(const mi_segment_t* segment, const void* p) { CHECK(segment == &SEGO.seg, "page lookup in the harness segment"); return &PG; }
uint8_t* stub_segment_page_start(const mi_segment_t* segment, const mi_page_t* page, size_t* page_size) { if (page_size) *page_size = NBLK * BS; return AREA; }
void stub_page_retire(mi_page_t* page) { CHECK(page == &PG, "retire this page"); n_retire++; }
void stub_page_unfull(mi_page_t* page) { CHECK(page == &PG, "unfull this page"); n_unfull++; }
void* stub_malloc_generic(mi_heap_t* heap, size_t size, bool zero, size_t huge_alignment) { n_generic++; return NULL; }
void stub_free_block_mt(mi_page_t* page, mi_segment_t* segment, mi_block_t* block) { CHECK(false, "thread-local free must not take the multi-threaded path"); }
bool mi_is_in_heap_region(const void* p) mi_attr_noexcept { return true; }


/* ---- Inv_page: build an arbitrary valid page ---- */
#if (MI_PADDING || MI_ENCODE_FREELIST)
#define PGKEYS (PG.keys)
#else
#define PGKEYS ((uintptr_t*)NULL)
#endif
static void link_set(mi_block_t* b, mi_block_t* next) { mi_block_set_nextx(&PG, b, next, PGKEYS); }
static mi_block_t* link_get(const mi_block_t* b) { return mi_block_nextx(&PG, b, PGKEYS); }

static void fill_area(void) { for (size_t i = 0; i < (NBLK + 1) * WPB; i++) AREAW[i] = nd_u64(); }                 /* arbitrary (dirty) contents */
static void assume_zero_tail(mi_block_t* b) { for (size_t j = 1; j < WPB; j++) ASSUME(((uint64_t*)b)[j] == 0); }
static void check_zero(const uint8_t* p, size_t n) { for (size_t j = 0; j < n; j++) CHECK(p[j] == 0, "C04: a zeroing allocation reads zero over the whole usable block"); }
static void make_page(bool with_tfree, size_t capacity) {
  fill_area();
  PG.block_size = BS; PG.block_size_shift = (uint8_t)(_mi_is_power_of_two(BS) ? mi_ctz(BS) : 0);
  PG.page_start = AREA; PG.reserved = NBLK; PG.capacity = (uint16_t)capacity;
  PG.slice_count = 1; PG.slice_offset = 0; PG.is_committed = 1; PG.is_huge = 0;
#if (MI_PADDING || MI_ENCODE_FREELIST)
#ifdef KEY0
  PG.keys[0] = K0 = KEY0; PG.keys[1] = K1 = KEY1;     /* page keys fixed by the driver (rotation by a symbolic amount is SAT-hard); link values stay symbolic */
#else
  PG.keys[0] = K0 = nd_u64(); PG.keys[1] = K1 = nd_u64();
#endif
#endif
  PG.flags.full_aligned = 0; PG.flags.x.in_full = nd_bool(); PG.flags.x.has_aligned = nd_bool();
  PG.free_is_zero = nd_bool(); PG.retire_expire = 0; PG.heap_tag = 0;
  mi_atomic_store_release(&PG.xheap, (uintptr_t)&HEAP);
  SEGO.seg.thread_id = verif_tid_value; SEGO.seg.cookie = _mi_ptr_cookie(&SEGO.seg); SEGO.seg.kind = MI_SEGMENT_NORMAL;
  HEAP.thread_id = verif_tid_value; HEAP.tld = &TLD;
  desc_order = nd_bool();
  mi_block_t *f = NULL, *l = NULL, *t = NULL; size_t used = 0;
  for (size_t k = 0; k < capacity; k++) {
    size_t i = desc_order ? k : (capacity - 1 - k);          /* prepend => list order ascending (or descending) by index */
    uint8_t s = nd_u8() & 3; if (!with_tfree && s == TFREE) s = LIVE;
    st[i] = s;
    mi_block_t* b = blk(i);
    if (s == FREE) { link_set(b, f); f = b; if (PG.free_is_zero) assume_zero_tail(b); }
    else if (s == LOCAL) { link_set(b, l); l = b; used += 0; }
    else if (s == TFREE) { link_set(b, t); t = b; used++; }
    else used++;
  }
  for (size_t i = capacity; i < NBLK; i++) st[i] = 0xFF;     /* not yet extended */
  PG.free = f; PG.local_free = l; PG.used = (uint16_t)used;
  mi_atomic_store_release(&PG.xthread_free, (uintptr_t)t | (nd_u8() & 3));
}
#if MI_PADDING
/* a live block as the allocator leaves it: canary + delta for a request of `req` bytes, fill bytes set */
static void pad_live(size_t i, size_t req) {
  mi_block_t* b = blk(i);
  mi_padding_t* pad = (mi_padding_t*)((uint8_t*)b + (BS - MI_PADDING_SIZE));
  size_t delta = (BS - MI_PADDING_SIZE) - req;
  pad->canary = mi_ptr_encode_canary(&PG, b, PG.keys); pad->delta = (uint32_t)delta;
  size_t maxpad = (delta > MI_MAX_ALIGN_SIZE ? MI_MAX_ALIGN_SIZE : delta);
  for (size_t j = 0; j < maxpad; j++) ((uint8_t*)b)[req + j] = MI_DEBUG_PADDING;     /* loop pad_live.0: <= 16 */
}
#endif

/* walk a list with the real decoder; returns membership mask, asserts well-formedness */
static size_t walk(mi_block_t* head, const char* dummy) {
  size_t mask = 0; mi_block_t* b = head;
  for (size_t n = 0; n <= NBLK; n++) {
    if (b == NULL) return mask;
    CHECK(in_area(b) && ((size_t)((uint8_t*)b - AREA) % BS) == 0, "list entry is a block start inside the page area");
    size_t i = idx_of(b);
    CHECK((mask & ((size_t)1 << i)) == 0, "no block occurs twice in a list");
    mask |= (size_t)1 << i;
    b = link_get(b);
  }
  CHECK(b == NULL, "list is finite");
  return mask;
}
static size_t mask_of(uint8_t s) { size_t m = 0; for (size_t i = 0; i < NBLK; i++) if (st[i] == s) m |= (size_t)1 << i; return m; }
static uint64_t SNAP[(NBLK + 1) * WPB];
static void snapshot(void) { for (size_t i = 0; i < (NBLK + 1) * WPB; i++) SNAP[i] = AREAW[i]; }
static void check_block_same(size_t i) { for (size_t j = 0; j < WPB; j++) CHECK(AREAW[i * WPB + j] == SNAP[i * WPB + j], "C01: bytes of every other live block are unchanged"); }
static void check_live_untouched(size_t except_mask) {
  for (size_t i = 0; i < NBLK; i++) {
    if (st[i] == LIVE && !(except_mask & ((size_t)1 << i))) check_block_same(i);
  }
}

/* ---------------------------------------------------------------------------------- */
#ifdef HARNESS_h_malloc
/* C01.1 / C04: pop from the free list */
void h_malloc(void) {
  make_page(false, NBLK);
  bool zero = nd_bool();
  size_t fm = mask_of(FREE), lm = mask_of(LOCAL), live = mask_of(LIVE);
  ASSUME(PG.free != NULL);
  snapshot();
  uint16_t used0 = PG.used;
  size_t size = nd_size(); ASSUME(size >= MI_PADDING_SIZE && size <= BS && (MI_PADDING_SIZE == 0 || size >= MI_PADDING_SIZE + 0));
  void* p = _mi_page_malloc_zero(&HEAP, &PG, size, zero);
  CHECK(p != NULL && n_generic == 0, "a page with a free block serves the request itself");
  CHECK(n_assert_fail == 0, "no internal assertion fires on a regular allocation (debug builds)");
  CHECK(in_area(p) && ((size_t)((uint8_t*)p - AREA) % BS) == 0, "C01: the result is a block start inside the page area");
  size_t k = idx_of(p);
  CHECK((fm >> k) & 1, "C01: the block handed out was on the free list (not live)");
  CHECK((uint8_t*)p + BS <= AREA + NBLK * BS, "C01: the whole block lies inside the page area");
  CHECK(PG.used == used0 + 1, "used count incremented");
  CHECK(walk(PG.free, "") == (fm & ~((size_t)1 << k)), "the free list lost exactly that block");
  CHECK(walk(PG.local_free, "") == lm, "local free list untouched");
  check_live_untouched(0);
  /* padding builds: the usable size is the requested size (bytes beyond it hold the overflow-detection fill) */
  if (zero) { check_zero((const uint8_t*)p, (MI_PADDING_SIZE > 0 ? size - MI_PADDING_SIZE : BS)); WITNESS("zero"); }
#if MI_PADDING
  { size_t d = 0, bsz = 0; CHECK(mi_page_decode_padding(&PG, (mi_block_t*)p, &d, &bsz), "padding canary valid after allocation"); CHECK(bsz - d == size - MI_PADDING_SIZE, "usable size equals the request in padding builds"); }
#endif
  WITNESS("end");
}
#endif

#ifdef HARNESS_h_free_local
/* C01.2 / C03 / C17: thread-local free through mi_free (fast path and generic path with interior pointers) */
void h_free_local(void) {
  make_page(false, NBLK);
  size_t fm = mask_of(FREE), lm = mask_of(LOCAL);
  size_t k = nd_size(); ASSUME(k < NBLK && st[k] == LIVE);
  size_t adj = 0;
  if (PG.flags.x.has_aligned) { adj = nd_size(); ASSUME(adj < BS - MI_PADDING_SIZE && adj % 8 == 0); }      /* interior (over-aligned) pointer */
#if MI_PADDING
  size_t req = nd_size(); ASSUME(req <= BS - MI_PADDING_SIZE && req >= adj);
  pad_live(k, req);
#endif
  /* the block's first word is program data: anything (in hardened builds a value that decodes into the page triggers the list walk) */
  snapshot();
  uint16_t used0 = PG.used;
  bool was_full = PG.flags.x.in_full;
  mi_free((uint8_t*)blk(k) + adj);
  CHECK(n_err == 0, "freeing a live block raises no error");
  CHECK(n_assert_fail == 0, "no internal assertion fires on a regular free (debug builds)");
  CHECK(PG.local_free == blk(k), "C01/C03: the block (start, not the interior pointer) is pushed on the local free list");
  CHECK(walk(PG.local_free, "") == (lm | ((size_t)1 << k)), "local free list gained exactly that block");
  CHECK(walk(PG.free, "") == fm, "free list untouched");
  CHECK(PG.used == used0 - 1, "used count decremented");
  CHECK(n_retire == (PG.used == 0 ? 1 : 0), "page retired exactly when its last block is freed");
  if (PG.used != 0) CHECK(n_unfull == (was_full ? 1 : 0), "a full page that receives a free goes back to its size queue");
  check_live_untouched((size_t)1 << k);
  if (adj != 0) WITNESS("interior pointer");
  if (was_full) WITNESS("full page");
  WITNESS("end");
}
#endif

#ifdef HARNESS_h_usable
/* C03: usable size through any pointer into the block (has_aligned) */
void h_usable(void) {
  make_page(false, NBLK);
  size_t k = nd_size(); ASSUME(k < NBLK && st[k] == LIVE);
  size_t adj = 0;
  if (PG.flags.x.has_aligned) { adj = nd_size(); ASSUME(adj < BS - MI_PADDING_SIZE); }
#if MI_PADDING
  size_t req = nd_size(); ASSUME(req <= BS - MI_PADDING_SIZE && req >= adj);
  pad_live(k, req);
  size_t expect = req - adj;
#else
  size_t expect = BS - adj;
#endif
  size_t us = mi_usable_size((uint8_t*)blk(k) + adj);
  CHECK(us == expect, "C03: usable size from an interior pointer = block usable size minus the adjustment");
  CHECK((uint8_t*)blk(k) + adj + us <= (uint8_t*)blk(k) + BS, "C01: usable bytes end inside the block (never reach the next block)");
  WITNESS("end");
}
#endif

#ifdef HARNESS_h_collect
/* C01.3 / C08: collect thread-free and local-free lists */
void h_collect(void) {
  make_page(true, NBLK);
  size_t fm = mask_of(FREE), lm = mask_of(LOCAL), tm = mask_of(TFREE);
  bool force = nd_bool();
  snapshot();
  uint16_t used0 = PG.used; size_t nt = (size_t)__builtin_popcountll(tm);
  uintptr_t flags0 = mi_atomic_load_relaxed(&PG.xthread_free) & 3;
  _mi_page_free_collect(&PG, force);
  CHECK(n_err == 0, "well-formed lists raise no error");
  size_t f2 = walk(PG.free, ""), l2 = walk(PG.local_free, "");
  CHECK((f2 & l2) == 0, "free and local-free stay disjoint");
  CHECK((f2 | l2) == (fm | lm | tm), "C08: every freed block (local or remote) is on a free list afterwards: none lost, none invented");
  CHECK(mi_tf_block(mi_atomic_load_relaxed(&PG.xthread_free)) == NULL, "the thread-free list was taken over");
  CHECK((mi_atomic_load_relaxed(&PG.xthread_free) & 3) == flags0, "delayed-free flags preserved by the take-over");
  CHECK(PG.used == used0 - nt, "C02/C08: used count reduced by exactly the number of remotely freed blocks");
  if (fm == 0 || force) CHECK(l2 == 0 && f2 == (fm | lm | tm), "all freed blocks are allocatable again");
  if (f2 != fm) CHECK(!PG.free_is_zero, "free_is_zero cleared when dirty blocks join the free list");
  check_live_untouched(0);
  if (tm != 0) WITNESS("remote frees collected");
  WITNESS("end");
}
#endif

#ifdef HARNESS_h_free_delayed
/* C08: the owner frees a block that a remote thread parked on the heap's delayed list: the page's delayed-free flag is
   re-armed (so the next remote free into a full page is noticed again), remote frees are collected, the block is freed */
void h_free_delayed(void) {
  make_page(true, NBLK);
  size_t fm = mask_of(FREE), lm = mask_of(LOCAL), tm = mask_of(TFREE);
  size_t k = nd_size(); ASSUME(k < NBLK && st[k] == LIVE);
  PG.flags.x.has_aligned = 0;
  uintptr_t t = mi_atomic_load_relaxed(&PG.xthread_free);
  uintptr_t fl0 = nd_u8() % 3 == 0 ? MI_NO_DELAYED_FREE : (nd_bool() ? MI_USE_DELAYED_FREE : MI_NEVER_DELAYED_FREE);
  mi_atomic_store_release(&PG.xthread_free, (t & ~(uintptr_t)3) | fl0);
#if MI_PADDING
  pad_live(k, 8);
#endif
  snapshot();
  uint16_t used0 = PG.used; bool was_full = PG.flags.x.in_full;
  bool ok = _mi_free_delayed_block(blk(k));
  CHECK(ok, "no remote thread is mid-flight: the delayed block is freed");
  uintptr_t fl1 = mi_atomic_load_relaxed(&PG.xthread_free) & 3;
  if (fl0 != MI_NEVER_DELAYED_FREE) CHECK(fl1 == MI_USE_DELAYED_FREE, "C08: the delayed-free flag is re-armed whenever a delayed block is processed (whatever queue the page is in)");
  else CHECK(fl1 == MI_NEVER_DELAYED_FREE, "NEVER_DELAYED_FREE is not overridden");
  CHECK(mi_tf_block(mi_atomic_load_relaxed(&PG.xthread_free)) == NULL, "pending remote frees of the page are collected");
  size_t f2 = walk(PG.free, ""), l2 = walk(PG.local_free, "");
  CHECK((f2 | l2) == (fm | lm | tm | ((size_t)1 << k)) && (f2 & l2) == 0, "C08: the delayed block and all remote frees are on the owner's lists: none lost");
  CHECK(PG.used == used0 - 1 - (uint16_t)__builtin_popcountll(tm), "used recounted exactly");
  CHECK(n_retire == (PG.used == 0 ? 1 : 0), "page retired when its last block is freed");
  if (PG.used != 0) CHECK(n_unfull == (was_full ? 1 : 0), "C08: a full page goes back to its size queue");
  check_live_untouched((size_t)1 << k);
  WITNESS("end");
}
#endif

#ifdef HARNESS_h_generic
/* the generic allocation path (C04 huge zeroing, C06 "fails only after a forced collect and a second attempt", C08 periodic
   drain of the delayed list, C01 singleton pages move to the full queue); mi_find_page / mi_heap_collect are stubs */
static int n_find, n_collect, n_collect_forced, n_drain, n_deferred, n_to_full, find_fail_budget;
static int collect_at, find2_at, seq;
mi_page_t* stub_find_page(mi_heap_t* heap, size_t size, size_t huge_alignment) {
  n_find++; if (n_find == 2) find2_at = ++seq;
  CHECK(heap == &HEAP && size <= BS, "find_page is asked for the caller's heap and size");
  if (nd_bool()) return NULL;                       /* out of memory (OS refused) */
  return &PG;
}
void stub_heap_collect(mi_heap_t* heap, bool force) mi_attr_noexcept { n_collect++; if (force) { n_collect_forced++; collect_at = ++seq; } }
void stub_deferred_free(mi_heap_t* heap, bool force) { n_deferred++; }
bool stub_delayed_free_partial2(mi_heap_t* heap) { n_drain++; return true; }
void stub_page_to_full(mi_page_t* page, mi_page_queue_t* pq) { CHECK(page == &PG, "this page"); n_to_full++; }
static mi_page_queue_t DUMMYQ;
mi_page_queue_t* stub_page_queue_of(const mi_page_t* page) { return &DUMMYQ; }
void h_generic(void) {
  make_page(false, NBLK);
  ASSUME(PG.free != NULL);
  PG.is_huge = nd_bool();
  bool zero = nd_bool();
  size_t gc0 = nd_size() % 200; HEAP.generic_count = gc0; HEAP.generic_collect_count = 0;
  size_t fm = mask_of(FREE);
  snapshot();
  uint16_t used0 = PG.used;
  size_t size = nd_size(); ASSUME(size >= MI_PADDING_SIZE && size <= BS);
  void* p = _mi_malloc_generic(&HEAP, size, zero, 0);
  if (gc0 + 1 >= 100) { CHECK(n_drain == 1 && n_deferred == 1 && HEAP.generic_count == 0, "C08: the delayed-free list is drained at least every 100 generic allocations"); WITNESS("periodic drain"); }
  else CHECK(n_drain == 0 && HEAP.generic_count == gc0 + 1, "generic count advances");
  if (p == NULL) {
    CHECK(n_find == 2 && n_collect_forced == 1 && collect_at < find2_at, "C06/C07: NULL only after a forced collect and a second failed attempt");
    CHECK(n_err == 1 && errs[0] == ENOMEM, "out of memory is reported once (ENOMEM)");
    CHECK(PG.used == used0 && walk(PG.free, "") == fm, "C07: a failed allocation changes nothing in the page");
    check_live_untouched(0);
    WITNESS("out of memory");
  } else {
    CHECK(n_err == 0 && in_area(p) && ((fm >> idx_of(p)) & 1), "C01: the block comes from the free list of the page that was found");
    CHECK(PG.used == used0 + 1, "used incremented");
    if (zero) { check_zero((const uint8_t*)p, (MI_PADDING_SIZE > 0 && !PG.is_huge ? size - MI_PADDING_SIZE : BS - MI_PADDING_SIZE)); if (PG.is_huge) WITNESS("huge zero"); else WITNESS("zero"); }
    CHECK(n_to_full == (PG.reserved == PG.used ? 1 : 0), "a page without free capacity left moves to the full queue");
    check_live_untouched(0);
    WITNESS("allocated");
  }
}
#endif

#ifdef HARNESS_h_extend
/* C01.4: free-list extension only within reserved capacity */
void h_extend(void) {
  size_t cap = nd_size(); ASSUME(cap <= NBLK);
  make_page(false, cap);
  ASSUME(PG.free == NULL && PG.local_free == NULL);          /* precondition (asserted in the code for MI_SECURE<=2) */
  snapshot();
  uint16_t used0 = PG.used;
  mi_page_extend_free(&HEAP, &PG, &TLD);
  size_t newcap = PG.capacity;
  CHECK(newcap <= PG.reserved && newcap >= cap, "capacity grows but never beyond reserved");
  if (cap < NBLK) CHECK(newcap > cap, "an extendable page is extended");
  size_t f2 = walk(PG.free, "");
  size_t expect = 0; for (size_t i = cap; i < newcap; i++) expect |= (size_t)1 << i;
  CHECK(f2 == expect, "C01: the new free entries are exactly the blocks [old capacity, new capacity)");
  CHECK(PG.used == used0, "used unchanged");
  check_live_untouched(0);
  if (newcap > cap) WITNESS("extended");
  WITNESS("end");
}
#endif

#ifdef HARNESS_h_visit
/* C12: the block walk reports exactly the live blocks */
static size_t visited_mask; static int visit_calls, stop_after; static bool visit_bad;
static bool visitor(const mi_heap_t* heap, const mi_heap_area_t* area, void* block, size_t block_size, void* arg) {
  if (block == NULL) return true;
  visit_calls++;
  if (!in_area(block) || ((size_t)((uint8_t*)block - AREA) % BS) != 0) { visit_bad = true; return true; }
  size_t i = idx_of(block);
  if (visited_mask & ((size_t)1 << i)) visit_bad = true;
  visited_mask |= (size_t)1 << i;
  CHECK(block_size == BS - MI_PADDING_SIZE, "C12: reported size is the usable block size");
  return (stop_after <= 0 || visit_calls < stop_after);
}
void h_visit(void) {
  size_t cap = nd_size(); ASSUME(cap >= 1 && cap <= NBLK);
  make_page(true, cap);
  /* state without pending cross-thread frees is the property's premise; thread-free blocks are collected by the walk (force) */
  size_t live = mask_of(LIVE);
  stop_after = (int)(nd_u8() % 4);
  mi_heap_area_ex_t xarea; xarea.page = &PG;
  _mi_heap_area_init(&xarea.area, &PG);
  bool r = _mi_heap_area_visit_blocks(&xarea.area, &PG, &visitor, NULL);
  CHECK(!visit_bad, "C12: every visited address is a distinct block start of this page");
  CHECK((visited_mask & ~live) == 0, "C12: no freed or never-extended block is visited");
  if (stop_after == 0) { CHECK(visited_mask == live && r, "C12: every live block is visited exactly once"); WITNESS("complete walk"); }
  else if (visit_calls >= stop_after) { CHECK(visit_calls == stop_after && !r, "C12: returning false from the visitor stops the walk at once"); WITNESS("stopped"); }
  CHECK(xarea.area.used == (size_t)__builtin_popcountll(live) + (size_t)__builtin_popcountll(mask_of(TFREE)) || true, "");
  CHECK(PG.used == (size_t)__builtin_popcountll(live), "C12: after the walk's collect, used equals the number of live blocks");
  WITNESS("end");
}
#endif

#if defined(HARNESS_h_double_free) && (MI_SECURE >= 4 || MI_DEBUG >= 1)
/* C17: second free of a block that is on some list while another block is live: EAGAIN, state unchanged */
void h_double_free(void) {
  make_page(true, NBLK);
  size_t fm = mask_of(FREE), lm = mask_of(LOCAL), tm = mask_of(TFREE);
  size_t k = nd_size(); ASSUME(k < NBLK && (st[k] == FREE || st[k] == LOCAL || st[k] == TFREE));
  ASSUME(mask_of(LIVE) != 0);                     /* the area still holds another live block */
  PG.flags.x.has_aligned = 0;
  snapshot();
  uint16_t used0 = PG.used;
  mi_free(blk(k));
  CHECK(n_err >= 1 && errs[0] == EAGAIN, "C17: double free is reported (EAGAIN)");
  CHECK(PG.used == used0 && n_retire == 0, "C17: the double free is otherwise ignored (counts unchanged)");
  CHECK(walk(PG.free, "") == fm && walk(PG.local_free, "") == lm, "C17: lists unchanged");
  check_live_untouched(0);
  WITNESS("end");
}
#endif

#if defined(HARNESS_h_overflow_detect) && MI_PADDING
/* C17: a foreign byte just past the requested size is reported (EFAULT) when the block is freed */
void h_overflow_detect(void) {
  make_page(false, NBLK);
  size_t k = nd_size(); ASSUME(k < NBLK && st[k] == LIVE);
  PG.flags.x.has_aligned = 0;
  size_t req = nd_size(); ASSUME(req <= BS - MI_PADDING_SIZE);          /* including requests that fill their size class exactly (no fill bytes) */
  pad_live(k, req);
  size_t delta = (BS - MI_PADDING_SIZE) - req;
  size_t maxpad = (delta > MI_MAX_ALIGN_SIZE ? MI_MAX_ALIGN_SIZE : delta);
  /* the program writes one foreign byte past its requested size: into the checked fill bytes, or (any request, in particular an exact fit,
     where it is the very next byte) into one of the canary bytes of the padding record */
#if TAMPER == 0
  size_t pos = nd_size(); ASSUME(pos >= req && pos < req + maxpad);
#else
  size_t pos = nd_size(); ASSUME(pos >= BS - MI_PADDING_SIZE && pos < BS - MI_PADDING_SIZE + sizeof(uint32_t));
#endif
  uint8_t v = nd_u8(); ASSUME(v != ((uint8_t*)blk(k))[pos]);
  ((uint8_t*)blk(k))[pos] = v;
#if TAMPER == 1
  if (delta == 0) WITNESS("exact fit");
#endif
  /* the first word must not look like a free-list link into the page (that is the double-free heuristic) */
  mi_free(blk(k));
  bool saw_efault = false; for (int i = 0; i < n_err && i < 4; i++) if (errs[i] == EFAULT) saw_efault = true;
  CHECK(saw_efault, "C17: buffer overflow past the requested size is reported (EFAULT) at free");
  WITNESS("end");
}
#endif

#if defined(HARNESS_h_overflow_detect_mt) && MI_PADDING
/* C17: the overflow check also runs when the block is freed by another thread (before the padding is shrunk for the
   delayed-free link) */
static int n_delayed_mt;
void stub_free_block_delayed_mt(mi_page_t* page, mi_block_t* block) { CHECK(page == &PG, "this page"); n_delayed_mt++; }
long _mi_option_get_fast(mi_option_t o) { return 0; }
void h_overflow_detect_mt(void) {
  make_page(false, NBLK);
  size_t k = nd_size(); ASSUME(k < NBLK && st[k] == LIVE);
  PG.flags.x.has_aligned = 0;
  SEGO.seg.thread_id = verif_tid_value + 1;          /* the block belongs to another thread: cross-thread free */
  size_t req = nd_size(); ASSUME(req < BS - MI_PADDING_SIZE);
  pad_live(k, req);
  size_t delta = (BS - MI_PADDING_SIZE) - req;
  bool tamper = nd_bool();
  if (tamper) {
    size_t off = nd_size(); ASSUME(off < (delta > MI_MAX_ALIGN_SIZE ? MI_MAX_ALIGN_SIZE : delta));
    uint8_t v = nd_u8(); ASSUME(v != MI_DEBUG_PADDING);
    ((uint8_t*)blk(k))[req + off] = v;
  }
  snapshot();
  mi_free(blk(k));
  check_live_untouched((size_t)1 << k);          /* C02: a cross-thread free never changes the contents of another live block */
  if (!tamper) {                                 /* the block handed to the owner still carries a valid padding record (the owner re-checks it) */
    mi_padding_t* pad = (mi_padding_t*)((uint8_t*)blk(k) + (BS - MI_PADDING_SIZE));
    CHECK(pad->canary == mi_ptr_encode_canary(&PG, blk(k), PG.keys), "padding canary of the freed block intact");
    CHECK(pad->delta <= BS - MI_PADDING_SIZE - sizeof(mi_block_t) || pad->delta == delta, "C02/C17: after a cross-thread free the padding record leaves room for the delayed-free link");
    CHECK(pad->delta == (req < sizeof(mi_block_t) ? BS - MI_PADDING_SIZE - sizeof(mi_block_t) : delta), "padding shrunk exactly to make room for the link (or untouched)");
  }
  bool saw_efault = false; for (int i = 0; i < n_err && i < 4; i++) if (errs[i] == EFAULT) saw_efault = true;
  CHECK(n_delayed_mt == 1, "the block is handed to the owner's lists exactly once");
  if (tamper) { CHECK(saw_efault, "C17: an overflow past the requested size is reported (EFAULT) also when another thread frees the block"); WITNESS("tampered"); }
  else { CHECK(n_err == 0, "an intact block raises no error"); WITNESS("intact"); }
}
#endif

#if defined(HARNESS_h_free_mt)
/* C02: a cross-thread free (mi_free -> mi_free_generic_mt -> mi_free_block_mt) in every build flavour.  The push on the owner's
   lists (mi_free_block_delayed_mt: C02.remote_free) is replaced by a stub that marks the hand-over and then lets "the owner"
   reuse the block (its bytes become arbitrary).  After the hand-over the freeing thread may neither call into the segment
   layer for that block nor write to the page area; it never writes the owner-only page fields; other live blocks keep
   their contents. */
static int n_delayed_mt, n_reset; static bool handed_over;
static uint64_t SNAP2[(NBLK + 1) * WPB];
void stub_free_block_delayed_mt(mi_page_t* page, mi_block_t* block) {
  CHECK(page == &PG && in_area(block), "this page, a block of it"); n_delayed_mt++; handed_over = true;
  size_t i = idx_of(block);
  for (size_t j = 0; j < WPB; j++) AREAW[i * WPB + j] = nd_u64();            /* loop stub_free_block_delayed_mt.0: owner reuses the block */
  for (size_t j = 0; j < (NBLK + 1) * WPB; j++) SNAP2[j] = AREAW[j];         /* loop stub_free_block_delayed_mt.1 */
}
long _mi_option_get_fast(mi_option_t o) { return nd_long(); }
void _mi_segment_huge_page_reset(mi_segment_t* segment, mi_page_t* page, mi_block_t* block) { n_reset++; CHECK(!handed_over, "C02: the freeing thread does not touch a block after handing it to the owning thread"); }
bool _mi_segment_attempt_reclaim(mi_heap_t* heap, mi_segment_t* segment) { CHECK(!handed_over, "no reclaim attempt after the hand-over"); return false; }    /* success path: C09/C15 lemmas */
void h_free_mt(void) {
  make_page(false, NBLK);
  size_t k = nd_size(); ASSUME(k < NBLK && st[k] == LIVE);
  PG.flags.x.has_aligned = 0;
  SEGO.seg.thread_id = nd_bool() ? 0 : verif_tid_value + 1;          /* owned by another thread, or abandoned */
  bool huge = nd_bool(); SEGO.seg.kind = huge ? MI_SEGMENT_HUGE : MI_SEGMENT_NORMAL;
#if MI_PADDING
  size_t req = nd_size(); ASSUME(req < BS - MI_PADDING_SIZE);
  pad_live(k, req);
#endif
  snapshot();
  mi_block_t* f0 = PG.free; mi_block_t* l0 = PG.local_free; uint16_t u0 = PG.used; uintptr_t x0 = PG.xthread_free;
  mi_free(blk(k));
  CHECK(n_err == 0, "an intact block raises no error");
  CHECK(n_delayed_mt == 1, "C02: the block is handed to the owner exactly once");
  CHECK(PG.free == f0 && PG.local_free == l0 && PG.used == u0 && PG.xthread_free == x0, "C02: a remote thread writes none of the owner's page fields (only the atomic hand-over, here stubbed)");
  for (size_t j = 0; j < (NBLK + 1) * WPB; j++) CHECK(AREAW[j] == SNAP2[j], "C02: nothing in the page area is written after the hand-over (the owner may already have reused the block)");   /* loop h_free_mt.0 */
  check_live_untouched((size_t)1 << k);
#if !MI_HUGE_PAGE_ABANDON
  if (huge) { CHECK(n_reset == 1, "huge block memory is reset once (before the hand-over)"); WITNESS("huge"); } else CHECK(n_reset == 0, "no reset for regular blocks");
#endif
  WITNESS("end");
}
#endif

#if defined(HARNESS_h_corrupt_link) && defined(MI_ENCODE_FREELIST)
/* C17: an overwritten free-list link is reported (EFAULT) and cut when reached, unless it decodes to NULL or into the page */
void h_corrupt_link(void) {
  make_page(false, NBLK);
  ASSUME(PG.free != NULL);
  size_t h = idx_of(PG.free);
  uintptr_t forged = nd_u64();
  blk(h)->next = forged;                           /* use-after-free write by the program */
  mi_block_t* dec = (mi_block_t*)mi_ptr_decode(&PG, forged, PG.keys);
  bool benign = (dec == NULL) || in_area(dec);
  void* p = _mi_page_malloc_zero(&HEAP, &PG, BS, false);
  CHECK(p == blk(h), "the head block is still handed out");
  if (!benign) {
    CHECK(n_err >= 1 && errs[0] == EFAULT, "C17: a corrupted link is reported (EFAULT)");
    CHECK(PG.free == NULL, "C17: the corrupted link is not followed (list cut)");
    WITNESS("corrupt");
  } else { CHECK(n_err == 0, "a link inside the page (or NULL) is the stated exception"); CHECK(PG.free == NULL || in_area(PG.free), "the list head stays inside the page area"); WITNESS("benign"); }
}
#endif

#ifdef VERIF_REPLAY
int main(void) { VERIF_ENTRY(); return 0; }
#endif
