/* Page-queue / heap lemmas: C10 (mi_heap_absorb / mi_heap_delete migrate every page, ownership queries), C01 item 6 and
   C08 (full-queue moves keep the page, flags and queues consistent), C03 (the has_aligned flag survives queue moves).
   Real code: page-queue.c (enqueue_from_ex, push, remove, first_update, _mi_page_queue_append), page.c (_mi_page_unfull,
   mi_page_to_full, _mi_page_use_delayed_free), heap.c (mi_heap_absorb, mi_heap_contains_block, mi_heap_check_owned).
   Two heaps (deleted heap A, backing heap B); A owns NP pages of one size class, each nondeterministically in its size
   queue or in the full queue; B owns up to one page in each of those queues. */
#include "verif.h"
#include "mimalloc.h"
#include "mimalloc/internal.h"
#include "mimalloc/atomic.h"
#include "mimalloc/prim.h"
#include <string.h>
void* __builtin_assume_aligned(const void* p, size_t a, ...) { return (void*)p; }
static inline mi_threadid_t verif_tid(void) { return 0x1000; }
#include "seq_atomics.h"
#include "init.c"
#include "page.c"
#include "heap.c"

void _mi_error_message(int err, const char* fmt, ...) { }
void _mi_warning_message(const char* fmt, ...) { }
void _mi_verbose_message(const char* fmt, ...) { }
void _mi_trace_message(const char* fmt, ...) { }
long mi_option_get(mi_option_t o) { return nd_long(); }
bool mi_option_is_enabled(mi_option_t o) { return nd_bool(); }
long mi_option_get_clamp(mi_option_t o, long lo, long hi) { return lo; }
size_t _mi_os_page_size(void) { return 4096; }


#ifndef NP
#define NP 3
#endif
#ifndef QBS
#define QBS 64           /* block size of the pages */
#endif
static mi_heap_t A, B;
static mi_tld_t TLD;
static mi_page_t PA[NP], PB[2];
static bool a_full[NP], a_aligned[NP], b_has[2], b_aligned[2];
static size_t BIN;
static int order_ctr, partial_at, all_at, append_first_at;
bool stub_delayed_free_partial(mi_heap_t* h) { CHECK(h == &A, "drains the deleted heap"); partial_at = ++order_ctr; return true; }
void stub_delayed_free_all(mi_heap_t* h) { CHECK(h == &A, "drains the deleted heap"); all_at = ++order_ctr; }

static void init_page(mi_page_t* p, mi_heap_t* h, bool aligned) {
  p->block_size = QBS; p->capacity = 4; p->reserved = 4; p->used = 4; p->free = NULL; p->local_free = NULL;
  p->flags.full_aligned = 0; p->flags.x.has_aligned = aligned;
  mi_atomic_store_release(&p->xheap, (uintptr_t)h);
  mi_atomic_store_release(&p->xthread_free, (uintptr_t)(nd_u8() % 4 == MI_DELAYED_FREEING ? MI_USE_DELAYED_FREE : nd_u8() % 4 == MI_DELAYED_FREEING ? 0 : (nd_u8() & 1) * 2));   /* USE (0) or NO (2): no remote thread is mid-flight in these sequential lemmas */
  p->next = p->prev = NULL;
}
static void q_push_back(mi_heap_t* h, mi_page_queue_t* q, mi_page_t* p) {
  p->prev = q->last; p->next = NULL;
  if (q->last != NULL) q->last->next = p; else q->first = p;
  q->last = p; h->page_count++;
  p->flags.x.in_full = (q == &h->pages[MI_BIN_FULL]);
}
static void make_heaps(void) {
  _mi_memcpy_aligned(&A, &_mi_heap_empty, sizeof(mi_heap_t));
  _mi_memcpy_aligned(&B, &_mi_heap_empty, sizeof(mi_heap_t));
  A.tld = &TLD; B.tld = &TLD; TLD.heap_backing = &B; A.thread_id = B.thread_id = verif_tid(); A.cookie = 1; B.cookie = 1;
  BIN = _mi_bin(QBS);
  for (int i = 0; i < NP; i++) {
#ifdef AFULL
    a_full[i] = ((AFULL >> i) & 1) != 0;     /* queue positions are enumerated by the driver; flags and contents stay symbolic */
#else
    a_full[i] = nd_bool();
#endif
    a_aligned[i] = nd_bool(); init_page(&PA[i], &A, a_aligned[i]); q_push_back(&A, a_full[i] ? &A.pages[MI_BIN_FULL] : &A.pages[BIN], &PA[i]); }
  for (int i = 0; i < 2; i++) {
#ifdef BHAS
    b_has[i] = ((BHAS >> i) & 1) != 0;
#else
    b_has[i] = nd_bool();
#endif
    b_aligned[i] = nd_bool(); if (b_has[i]) { init_page(&PB[i], &B, b_aligned[i]); q_push_back(&B, i == 1 ? &B.pages[MI_BIN_FULL] : &B.pages[BIN], &PB[i]); } }
  mi_heap_queue_first_update(&A, &A.pages[BIN]); mi_heap_queue_first_update(&B, &B.pages[BIN]);
}
/* well-formed doubly linked queue; returns number of entries; every entry has the queue's in_full flag and heap h */
static size_t check_queue(mi_heap_t* h, mi_page_queue_t* q, bool is_full_q) {
  size_t n = 0; mi_page_t* prev = NULL; mi_page_t* p = q->first;
  for (int k = 0; k <= NP + 2; k++) {
    if (p == NULL) break;
    CHECK(p->prev == prev, "queue: prev links consistent");
    CHECK(mi_page_heap(p) == h, "C10: every page in a heap's queue is attributed to that heap");
    CHECK((bool)p->flags.x.in_full == is_full_q, "in_full flag matches the queue the page is in");
    n++; prev = p; p = p->next;
  }
  CHECK(p == NULL, "queue is finite");
  CHECK(q->last == prev, "queue: last pointer consistent");
  return n;
}
static bool in_queue(mi_page_queue_t* q, mi_page_t* x) { mi_page_t* p = q->first; for (int k = 0; k <= NP + 2; k++) { if (p == NULL) return false; if (p == x) return true; p = p->next; } return false; }

#ifdef HARNESS_h_absorb
void h_absorb(void) {
  make_heaps();
  size_t b0 = B.page_count;
  mi_heap_absorb(&B, &A);
  CHECK(A.page_count == 0 && B.page_count == b0 + NP, "C10: page counts add up, nothing lost");
  size_t nb = check_queue(&B, &B.pages[BIN], false), nf = check_queue(&B, &B.pages[MI_BIN_FULL], true);
  CHECK(nb + nf == b0 + NP, "C10: every page of the deleted heap is in a queue of the backing heap");
  for (int i = 0; i < NP; i++) {
    CHECK(mi_page_heap(&PA[i]) == &B, "C10: migrated pages are attributed to the backing heap");
    CHECK(in_queue(a_full[i] ? &B.pages[MI_BIN_FULL] : &B.pages[BIN], &PA[i]), "C10: a page stays in its kind of queue (size queue / full queue) after migration");
    CHECK((bool)PA[i].flags.x.has_aligned == a_aligned[i], "C03: has_aligned survives the migration");
    CHECK(mi_page_thread_free_flag(&PA[i]) == MI_USE_DELAYED_FREE, "C10: every migrated page went through the delayed-free hand-shake (flag re-set to USE_DELAYED_FREE, which waits out in-flight remote frees that still hold the old heap)");
  }
  for (int i = 0; i < 2; i++) if (b_has[i]) CHECK(mi_page_heap(&PB[i]) == &B && in_queue(i == 1 ? &B.pages[MI_BIN_FULL] : &B.pages[BIN], &PB[i]), "pages of the backing heap stay");
  CHECK(A.pages[BIN].first == NULL && A.pages[MI_BIN_FULL].first == NULL, "the deleted heap holds no pages afterwards");
  CHECK(partial_at != 0 && all_at != 0 && partial_at < all_at, "delayed frees of the deleted heap are drained, finally after the pages moved");
  CHECK(all_at == order_ctr, "C10: the final drain of the deleted heap's delayed-free list happens after every queue was appended");
  mi_page_t* d = B.pages_free_direct[_mi_wsize_from_size(QBS)];
  CHECK(d == (B.pages[BIN].first != NULL ? B.pages[BIN].first : (mi_page_t*)&_mi_page_empty), "direct small-page table points at the first page of the size queue");
  WITNESS("end");
}
#endif

#ifdef HARNESS_h_fullmoves
/* C01.6 / C08 / C03: a page moves between its size queue and the full queue */
void h_fullmoves(void) {
  make_heaps();
#ifdef KPAGE
  size_t k = KPAGE;
#else
  size_t k = nd_size(); ASSUME(k < NP);
#endif
  mi_page_t* p = &PA[k];
  size_t cnt0 = A.page_count;
  if (a_full[k]) { _mi_page_unfull(p); CHECK(!p->flags.x.in_full && in_queue(&A.pages[BIN], p) && !in_queue(&A.pages[MI_BIN_FULL], p), "C08: a full page that gets a free block returns to its size queue"); }
  else { mi_page_to_full(p, &A.pages[BIN]); CHECK(p->flags.x.in_full && in_queue(&A.pages[MI_BIN_FULL], p) && !in_queue(&A.pages[BIN], p), "a full page moves to the full queue"); }
  CHECK((bool)p->flags.x.has_aligned == a_aligned[k], "C03/C01: the has_aligned flag survives moves to and from the full queue");
  CHECK(A.page_count == cnt0, "page count unchanged");
  size_t nb = check_queue(&A, &A.pages[BIN], false), nf = check_queue(&A, &A.pages[MI_BIN_FULL], true);
  CHECK(nb + nf == NP, "no page lost or duplicated");
  for (int i = 0; i < NP; i++) if ((size_t)i != k) { CHECK((bool)PA[i].flags.x.has_aligned == a_aligned[i] && (bool)PA[i].flags.x.in_full == a_full[i], "other pages keep their flags"); }
  mi_page_t* d = A.pages_free_direct[_mi_wsize_from_size(QBS)];
  CHECK(d == (A.pages[BIN].first != NULL ? A.pages[BIN].first : (mi_page_t*)&_mi_page_empty), "direct small-page table points at the first page of the size queue");
  CHECK(d == (mi_page_t*)&_mi_page_empty || d->block_size >= QBS, "C01: the fast path can only reach a page whose blocks are large enough");
  WITNESS("end");
}
#endif

#ifdef HARNESS_h_heap_by_tag
/* C10/C09: pages adopted from terminated threads must never land in a heap that can be destroyed (mi_heap_new heaps are
   "no reclaim" heaps: mi_heap_destroy frees every page they hold): the heap chosen for reclaimed pages of a given tag is
   never a no_reclaim heap */
void h_heap_by_tag(void) {
  static mi_heap_t H[3];
  for (int i = 0; i < 3; i++) { H[i].tld = &TLD; H[i].tag = nd_u8() % 3; H[i].no_reclaim = nd_bool(); H[i].next = (i + 1 < 3 ? &H[i + 1] : NULL); }
  H[2].no_reclaim = false; H[2].tag = 0;          /* the backing heap: tag 0, never destroyable, last in the thread's heap list */
  TLD.heaps = &H[0]; TLD.heap_backing = &H[2];
  int from = nd_u8() % 3; uint8_t tag = nd_u8() % 3;
  mi_heap_t* r = _mi_heap_by_tag(&H[from], tag);
  if (r != NULL) { CHECK(r->tag == tag, "the chosen heap has the requested tag"); CHECK(!r->no_reclaim, "C10: reclaimed pages never go to a destroyable (no_reclaim) heap, so mi_heap_destroy cannot free blocks of other threads"); WITNESS("found"); }
  if (tag == 0) CHECK(r != NULL, "tag 0 always has the backing heap");
  WITNESS("end");
}
#endif

#ifdef HARNESS_h_heap_new
/* C10: the descriptor of a new heap is a block of the thread's BACKING heap (never of whatever heap happens to be the
   default), so destroying another heap can not free it */
static mi_heap_t NEWH; static mi_heap_t* malloc_from; static int n_hmalloc;
void* stub_heap_malloc(mi_heap_t* heap, size_t size) { n_hmalloc++; malloc_from = heap; CHECK(size == sizeof(mi_heap_t), "descriptor size"); return nd_bool() ? NULL : &NEWH; }
void* stub_malloc_default(size_t size) { n_hmalloc++; malloc_from = _mi_heap_default; return nd_bool() ? NULL : &NEWH; }   /* an allocation from the current default heap */
mi_heap_t* stub_heap_get_default(void) { return &A; }                 /* the current default heap is NOT the backing heap */
void _mi_random_init(mi_random_ctx_t* ctx) { }
void _mi_random_split(mi_random_ctx_t* ctx, mi_random_ctx_t* new_ctx) { }
uintptr_t _mi_random_next(mi_random_ctx_t* ctx) { return nd_u64(); }
mi_arena_id_t _mi_arena_id_none(void) { return 0; }
void h_heap_new(void) {
  make_heaps();
  _mi_heap_default = &A;
  mi_heap_t* h = nd_bool() ? mi_heap_new() : mi_heap_new_in_arena((mi_arena_id_t)(nd_u8() % 3));
  CHECK(n_hmalloc == 1 && malloc_from == &B, "C10: the heap descriptor is allocated in the backing heap");
  if (h != NULL) { CHECK(h == &NEWH && h->tld == &TLD && TLD.heaps == h, "new heap initialised and registered with the thread"); CHECK(h->page_count == 0, "a new heap owns no pages"); WITNESS("created"); }
  else WITNESS("failed");
}
#endif

#ifdef HARNESS_h_collect_abandon
/* C09/C08: thread exit (collect with MI_ABANDON): every page is first marked NEVER_DELAYED_FREE, only then the heap's delayed
   list is drained -- so no remote free can be parked on the dying heap's list after the last drain */
static int n_drain2; static bool all_never_at_drain;
void stub_delayed_free_all_check(mi_heap_t* h) {
  n_drain2++; all_never_at_drain = true;
  for (int i = 0; i < NP; i++) if (mi_page_thread_free_flag(&PA[i]) != MI_NEVER_DELAYED_FREE) all_never_at_drain = false;
}
static int n_pages_collected;
bool stub_heap_page_collect(mi_heap_t* heap, mi_page_queue_t* pq, mi_page_t* page, void* arg_collect, void* arg2) { n_pages_collected++; CHECK(n_drain2 >= 1, "pages are abandoned only after the delayed list was drained"); return true; }
void _mi_abandoned_reclaim_all(mi_heap_t* heap, mi_segments_tld_t* tld) { }
void _mi_abandoned_collect(mi_heap_t* heap, bool force, mi_segments_tld_t* tld) { }

void _mi_arenas_collect(bool force_purge) { }
void mi_stats_merge(void) mi_attr_noexcept { }
void h_collect_abandon(void) {
  make_heaps();
  _mi_heap_collect_abandon(&A);
  CHECK(n_drain2 >= 1 && all_never_at_drain, "C09: at the (last) drain of the exiting thread's delayed list every page is already NEVER_DELAYED_FREE");
  CHECK(n_pages_collected == NP, "every page of the heap is visited for abandonment");
  WITNESS("end");
}
#endif

#ifdef HARNESS_h_force_abandon
/* C02/C09: forced abandonment of a page: the drain of the delayed-free list that precedes it may free a block of this very
   page and thereby move it from the full queue back to its size queue; the page must be unlinked from the queue it is in
   at that moment, leaving both queues intact, and handed to the segment layer exactly once */
static int n_seg_abandon, n_seg_free; static mi_page_t* abandoned_page;
void _mi_segment_page_abandon(mi_page_t* page, mi_segments_tld_t* tld) { n_seg_abandon++; abandoned_page = page; }
void _mi_segment_page_free(mi_page_t* page, bool force, mi_segments_tld_t* tld) { n_seg_free++; abandoned_page = page; }
static mi_page_t* drain_target; static bool drain_moves;
void stub_delayed_free_all_move(mi_heap_t* h) {
  CHECK(h == &A, "drains the page's heap");
  /* a delayed block of the page is freed by the drain: a full page returns to its size queue (real code) */
  if (drain_moves && drain_target->flags.x.in_full) { drain_target->used--; _mi_page_unfull(drain_target); }
}
void h_force_abandon(void) {
  make_heaps();
#ifdef KPAGE
  size_t k = KPAGE;
#else
  size_t k = 0;
#endif
  mi_page_t* p = &PA[k];
  drain_target = p; drain_moves = nd_bool();
  size_t cnt0 = A.page_count;
  _mi_page_force_abandon(p);
  CHECK(n_seg_abandon + n_seg_free == 1 && abandoned_page == p, "the page is handed to the segment layer exactly once");
  CHECK(mi_page_heap(p) == NULL && p->next == NULL && p->prev == NULL, "an abandoned page belongs to no heap and no queue");
  CHECK(!in_queue(&A.pages[BIN], p) && !in_queue(&A.pages[MI_BIN_FULL], p), "C02: the page is unlinked from whatever queue it was in after the drain (the old owner can no longer allocate from it)");
  CHECK(A.page_count == cnt0 - 1, "page count decremented");
  size_t nb = 0, nf = 0;
  { mi_page_t* q = A.pages[BIN].first; mi_page_t* prev = NULL; for (int i = 0; i <= NP; i++) { if (q == NULL) break; CHECK(q->prev == prev && q != p, "size queue stays well-formed"); prev = q; q = q->next; nb++; } CHECK(q == NULL && A.pages[BIN].last == prev, "size queue last pointer"); }
  { mi_page_t* q = A.pages[MI_BIN_FULL].first; mi_page_t* prev = NULL; for (int i = 0; i <= NP; i++) { if (q == NULL) break; CHECK(q->prev == prev && q != p, "full queue stays well-formed"); prev = q; q = q->next; nf++; } CHECK(q == NULL && A.pages[MI_BIN_FULL].last == prev, "full queue last pointer"); }
  CHECK(nb + nf == NP - 1, "every other page is still in a queue");
  if (drain_moves && a_full[k]) WITNESS("moved by the drain");
  WITNESS("end");
}
#endif

#ifdef HARNESS_h_heap_destroy
/* C10: mi_heap_destroy releases every page of that heap exactly once and nothing else (pages of the backing heap stay), resets
   the heap, unlinks it from the thread's heap list, moves the default heap to the backing heap, and frees the descriptor last;
   a heap that was not created destroyable (no_reclaim == false: it may hold adopted pages with other threads' live blocks)
   is deleted (migrated) instead.  Page release into the segment layer is a recording stub (decided by C01.page_free_full). */
static size_t freed_mask; static int n_page_free, n_desc_free, n_delete, desc_free_at, last_page_free_at;
void _mi_segment_page_free(mi_page_t* page, bool force, mi_segments_tld_t* tld) {
  int k = -1; for (int i = 0; i < NP; i++) if (page == &PA[i]) k = i;
  CHECK(k >= 0, "C10: only pages of the destroyed heap are released (nothing of another heap)");
  if (k >= 0) { CHECK((freed_mask & ((size_t)1 << k)) == 0, "C10: no page is released twice"); freed_mask |= (size_t)1 << k; }
  CHECK(page->used == 0 && page->next == NULL && page->prev == NULL, "a destroyed page is handed over unlinked and counted empty");
  CHECK(mi_page_thread_free_flag(page) == MI_NEVER_DELAYED_FREE, "C10: no remote free can be queued on the heap any more (NEVER_DELAYED_FREE) when its page is released");
  n_page_free++; last_page_free_at = ++order_ctr;
}
void mi_free(void* p) mi_attr_noexcept { CHECK(p == (void*)&A, "only the descriptor of the destroyed heap is freed"); n_desc_free++; desc_free_at = ++order_ctr; }
void stub_heap_delete(mi_heap_t* h) { CHECK(h == &A, "this heap"); n_delete++; }
void _mi_prim_thread_associate_default_heap(mi_heap_t* heap) { }      /* pthread key bookkeeping of the platform layer */
void h_heap_destroy(void) {
  make_heaps();
  A.no_reclaim = nd_bool(); B.no_reclaim = false;
  bool a_first = nd_bool();                         /* position of A in the thread's heap list (the backing heap is always on it) */
  static mi_heap_t C; C.tld = &TLD; C.thread_id = verif_tid();
  if (a_first) { TLD.heaps = &A; A.next = &C; C.next = &B; B.next = NULL; } else { TLD.heaps = &C; C.next = &A; A.next = &B; B.next = NULL; }
  bool a_default = nd_bool(); _mi_heap_default = a_default ? &A : &B;
  size_t b0 = B.page_count;
  mi_heap_destroy(&A);
  if (!A.no_reclaim) {
    CHECK(n_delete == 1 && n_page_free == 0 && n_desc_free == 0, "C10: a heap that may hold adopted pages is migrated, never destroyed");
    WITNESS("not destroyable");
    return;
  }
  CHECK(n_delete == 0 && freed_mask == (((size_t)1 << NP) - 1) && n_page_free == NP, "C10: every page of the destroyed heap is released exactly once");
  CHECK(A.page_count == 0 && A.pages[BIN].first == NULL && A.pages[BIN].last == NULL && A.pages[MI_BIN_FULL].first == NULL && A.pages[MI_BIN_FULL].last == NULL, "the destroyed heap holds no pages");
  { mi_page_t* d = A.pages_free_direct[_mi_wsize_from_size(QBS)]; CHECK(d == NULL || d == (mi_page_t*)&_mi_page_empty, "no stale direct pointer to a released page"); }
  CHECK(B.page_count == b0, "C10: the backing heap keeps its pages");
  for (int i = 0; i < 2; i++) if (b_has[i]) CHECK(mi_page_heap(&PB[i]) == &B && in_queue(i == 1 ? &B.pages[MI_BIN_FULL] : &B.pages[BIN], &PB[i]) && PB[i].used == 4, "C10: pages of other heaps are untouched");
  CHECK(TLD.heaps == &C && C.next == &B && B.next == NULL, "the destroyed heap is unlinked from the thread's heap list, the others stay");
  CHECK(_mi_heap_default == &B, "C10: the default heap falls back to the backing heap");
  CHECK(n_desc_free == 1 && desc_free_at > last_page_free_at, "the descriptor is freed once, after its pages");
  WITNESS("destroyed");
  if (a_default) WITNESS("was default");
}
#endif

#ifdef HARNESS_h_visit_areas
/* C12: the heap walk reaches every page of the heap exactly once -- in the size queues and in the full queue -- and no page of another
   heap; a visitor returning false stops it.  (Blocks inside one area: C12.visit in page_layer.c; that the queues stay well formed
   under migration: heap_absorb.) */
static size_t seen_mask; static int n_areas, n_dup, n_foreign, stop_after;
static uint8_t VAREAS[NP + 2][4 * QBS];
static bool area_visitor(const mi_heap_t* heap, const mi_heap_area_t* area, void* block, size_t block_size, void* arg) {
  CHECK(block == NULL && heap == &A && block_size == QBS, "area call-back: no block, this heap, the area's block size");
  int k = -1; for (int i = 0; i < NP; i++) if (area->blocks == (void*)VAREAS[i]) k = i;
  if (k < 0) n_foreign++; else { if (seen_mask & ((size_t)1 << k)) n_dup++; seen_mask |= (size_t)1 << k; CHECK(area->used == PA[k].used, "per area the used count of its page"); }
  n_areas++;
  return (n_areas != stop_after);
}
void h_visit_areas(void) {
  make_heaps();
  for (int i = 0; i < NP; i++) { PA[i].page_start = VAREAS[i]; PA[i].used = (uint16_t)(nd_u8() % 5); }
  for (int i = 0; i < 2; i++) PB[i].page_start = VAREAS[NP + i];
  stop_after = nd_u8() % (NP + 2);          /* 0: never stop */
  bool r = mi_heap_visit_blocks(&A, false, &area_visitor, NULL);
  CHECK(n_dup == 0 && n_foreign == 0, "C12: no page is reported twice and no page of another heap is reported");
  if (stop_after == 0 || stop_after > NP) { CHECK(r && seen_mask == (((size_t)1 << NP) - 1) && n_areas == NP, "C12: every page of the heap is reported once (size queue and full queue)"); WITNESS("complete"); }
  else { CHECK(!r && n_areas == stop_after, "C12: returning false from the visitor stops the walk"); WITNESS("stopped"); }
}
#endif

#ifdef HARNESS_h_fresh_alloc
/* C03/C01: a fresh page as the heap layer sets it up (mi_large_huge_page_alloc / mi_page_fresh -> mi_page_fresh_alloc -> mi_page_init) on top
   of what the segment layer hands over (stub with the contract decided by C01.segment_alloc_full / C03.huge_geometry / C16.page_start):
   the blocks of the page are at least as large as requested, lie inside the page area, and a huge or over-aligned page consists of ONE
   block that covers the whole page area -- so that an aligned pointer far into the area still belongs to that block and its
   usable size covers the request. */
static mi_page_t NEWP; static mi_segment_t FSEG; static uint8_t FAREA[64];
static size_t seg_req_bs, seg_req_align, PSZ; static int n_seg_alloc, n_extend2;
mi_page_t* _mi_segment_page_alloc(mi_heap_t* heap, size_t block_size, size_t page_alignment, mi_segments_tld_t* tld) {
  n_seg_alloc++; seg_req_bs = block_size; seg_req_align = page_alignment;
  if (nd_bool()) return NULL;
  bool huge = (page_alignment > MI_BLOCK_ALIGNMENT_MAX || block_size > MI_LARGE_OBJ_SIZE_MAX);
  PSZ = nd_size();                                                   /* size of the page area */
  if (huge) { ASSUME(PSZ >= block_size + (page_alignment > 0 ? page_alignment / 2 : 0) && PSZ <= ((size_t)1 << (FRESH_BITS + 2))); NEWP.is_huge = 1; NEWP.block_size = PSZ; FSEG.kind = MI_SEGMENT_HUGE; }
  else { ASSUME(PSZ >= block_size && PSZ <= MI_SEGMENT_SIZE && PSZ / block_size < 65536); NEWP.is_huge = 0; NEWP.block_size = PSZ + nd_u8(); FSEG.kind = MI_SEGMENT_NORMAL; }
  NEWP.is_committed = 1; NEWP.is_zero_init = nd_bool();
  return &NEWP; }
uint8_t* _mi_segment_page_start(const mi_segment_t* segment, const mi_page_t* page, size_t* page_size) { if (page_size != NULL) *page_size = PSZ; return FAREA; }
mi_segment_t* stub_ptr_segment_f(const void* p) { return &FSEG; }
void _mi_stat_increase(mi_stat_count_t* stat, size_t amount) { }
void _mi_stat_counter_increase(mi_stat_counter_t* stat, size_t amount) { }
void stub_extend_free2(mi_heap_t* heap, mi_page_t* page, mi_tld_t* tld) { n_extend2++; CHECK(page->capacity < page->reserved, "room to extend"); page->capacity = 1; page->free = (mi_block_t*)FAREA; }
#if FRESH_KIND != 0
size_t _mi_os_good_alloc_size(size_t size) { return ((size + 65535) / 65536) * 65536; }       /* concrete rounding (C11.good_alloc_size decides the real one) */
#else
size_t _mi_os_good_alloc_size(size_t size) { size_t r = nd_size(); ASSUME(r >= size && r - size < ((size_t)4 << 20)); return r; }
#endif
void h_fresh_alloc(void) {
  make_heaps();
  size_t size = nd_size(); size_t align = 0; mi_page_t* pg;
  size_t a0 = A.page_count;
#if FRESH_KIND == 0            /* small/medium page of the heap's 64-byte class */
  size = QBS; pg = mi_page_fresh(&A, &A.pages[BIN]);
#else                          /* large / huge / over-aligned */
  ASSUME(size > MI_MEDIUM_OBJ_SIZE_MAX && size <= ((size_t)1 << FRESH_BITS));        /* bounded: mi_page_init divides the (symbolic) area size by the (symbolic) block size */
#if FRESH_KIND == 1            /* huge or over-aligned: the huge queue; request size and alignment concrete (driver enumerates) so that the division in mi_page_init is by a constant, area size symbolic */
  size = LSIZE; align = HALIGN;
#else                          /* large: concrete size (its queue index stays concrete), driver enumerates */
  size = LSIZE;
#endif
  pg = mi_large_huge_page_alloc(&A, size, align);
#endif
  CHECK(n_seg_alloc == 1 && seg_req_bs >= size && seg_req_align == align, "the segment layer is asked for at least the requested size and the same alignment");
  if (pg == NULL) { CHECK(A.page_count == a0, "nothing is queued on failure"); WITNESS("refused"); return; }
  CHECK(pg == &NEWP && mi_page_heap(pg) == &A && A.page_count == a0 + 1, "the fresh page belongs to the allocating heap");
  CHECK(pg->block_size >= size, "C01/C03: blocks of the fresh page are at least as large as the request");
  CHECK(pg->reserved >= 1 && (size_t)pg->reserved * pg->block_size <= PSZ, "C01: all blocks of the page lie inside its area");
  CHECK(pg->page_start == FAREA && pg->capacity <= pg->reserved && pg->used == 0, "page start and counts initialised");
  if (NEWP.is_huge) {
    CHECK(pg->block_size == PSZ && pg->reserved == 1, "C03: a huge or over-aligned page is a single block covering the whole page area (an aligned pointer deep inside still maps to it and its usable size covers the request)");
    CHECK(in_queue(&A.pages[MI_BIN_HUGE], pg), "queued with the huge pages");
#if FRESH_KIND == 1
    WITNESS("huge");
#endif
  } else {
#if FRESH_KIND == 0
    CHECK(pg->block_size == QBS && A.pages[BIN].first == pg, "a page of the requested size class, at the front of its queue");
#else
    CHECK(in_queue(&A.pages[_mi_bin(pg->block_size)], pg), "queued by its block size");
#endif
#if FRESH_KIND != 1
    WITNESS("regular");
#endif
  }
}
#endif

#ifdef HARNESS_h_heap_collect
/* C08/C09/C11: mi_heap_collect_ex (CMODE: 0 normal, 1 force, 2 abandon) with the real page visitor: every page whose blocks have all been
   freed -- locally or by other threads (still parked on its thread-free list) -- is released exactly once, so a heap whose blocks were
   all freed holds no page after the owner collects; pages with live blocks stay (normal/force) or are abandoned exactly once with
   their heap link cleared (abandon) -- the dying heap keeps nothing.  Page states are enumerated (base-3 digits of PST: 0 all freed
   locally, 1 live blocks, 2 all freed remotely and not yet collected). */
static mi_block_t RB[NP];
static uint8_t pst[NP];
static size_t freed_mask2, aband_mask; static int n_seg_collect;
void _mi_segment_page_free(mi_page_t* page, bool force, mi_segments_tld_t* tld) {
  int k = -1; for (int i = 0; i < NP; i++) if (page == &PA[i]) k = i;
  CHECK(k >= 0 && (freed_mask2 & ((size_t)1 << (k >= 0 ? k : 0))) == 0, "C08: a page is released at most once, and only a page of this heap");
  CHECK(page->used == 0 && mi_page_heap(page) == NULL && page->next == NULL && page->prev == NULL, "a released page has no live block, no heap and no queue links");
  if (k >= 0) freed_mask2 |= (size_t)1 << k; }
void _mi_segment_page_abandon(mi_page_t* page, mi_segments_tld_t* tld) {
  int k = -1; for (int i = 0; i < NP; i++) if (page == &PA[i]) k = i;
  CHECK(k >= 0 && (aband_mask & ((size_t)1 << (k >= 0 ? k : 0))) == 0 && (freed_mask2 & ((size_t)1 << (k >= 0 ? k : 0))) == 0, "C09: a page is abandoned at most once and never after it was released");
  CHECK(page->used > 0 && mi_page_heap(page) == NULL && mi_page_thread_free_flag(page) == MI_NEVER_DELAYED_FREE && page->next == NULL && page->prev == NULL, "C09: an abandoned page has live blocks, no heap, no queue links and takes no delayed frees");
  if (k >= 0) aband_mask |= (size_t)1 << k; }
void _mi_segment_collect(mi_segment_t* segment, bool force) { n_seg_collect++; }
mi_segment_t* stub_ptr_segment_q(const void* p) { static mi_segment_t QS; return &QS; }
void _mi_abandoned_reclaim_all(mi_heap_t* heap, mi_segments_tld_t* tld) { }
void _mi_abandoned_collect(mi_heap_t* heap, bool force, mi_segments_tld_t* tld) { }
void _mi_arenas_collect(bool force_purge) { }
void mi_stats_merge(void) mi_attr_noexcept { }
void stub_collect_retired2(mi_heap_t* heap, bool force) { }
void stub_delayed_free_all2(mi_heap_t* h) { CHECK(h == &A, "this heap"); }
void h_heap_collect(void) {
  make_heaps();
  { int c = PST; for (int i = 0; i < NP; i++) { pst[i] = (uint8_t)(c % 3); c /= 3; } }
  size_t expect_free = 0, expect_live = 0;
  for (int i = 0; i < NP; i++) {
    PA[i].xthread_free = (uintptr_t)MI_NO_DELAYED_FREE;
    if (pst[i] == 0) { PA[i].used = 0; expect_free |= (size_t)1 << i; }
    else if (pst[i] == 1) { PA[i].used = 2; expect_live |= (size_t)1 << i; }
    else { PA[i].used = 1; RB[i].next = 0; PA[i].xthread_free = (uintptr_t)&RB[i] | MI_NO_DELAYED_FREE; expect_free |= (size_t)1 << i; }
  }
  mi_heap_collect_ex(&A, CMODE == 0 ? MI_NORMAL : CMODE == 1 ? MI_FORCE : MI_ABANDON);
  CHECK(freed_mask2 == expect_free, "C08/C11: exactly the pages whose blocks were all freed (by whichever thread) are released");
  CHECK(aband_mask == (CMODE == 2 ? expect_live : 0), "C09: pages with live blocks are abandoned exactly when the thread exits, otherwise kept");
  size_t nb = check_queue(&A, &A.pages[BIN], false), nf = check_queue(&A, &A.pages[MI_BIN_FULL], true);
  size_t live = (size_t)__builtin_popcountll(expect_live);
  CHECK(nb + nf == (CMODE == 2 ? 0 : live) && A.page_count == (CMODE == 2 ? 0 : live), "C08: afterwards the heap holds exactly its pages with live blocks (none at thread exit)");
  for (int i = 0; i < NP; i++) if (pst[i] == 1 && CMODE != 2) CHECK(PA[i].used == 2 && mi_page_heap(&PA[i]) == &A && (in_queue(&A.pages[BIN], &PA[i]) || in_queue(&A.pages[MI_BIN_FULL], &PA[i])), "a page with live blocks is untouched");
  mi_page_t* d = A.pages_free_direct[_mi_wsize_from_size(QBS)];
  CHECK(d == (A.pages[BIN].first != NULL ? A.pages[BIN].first : (mi_page_t*)&_mi_page_empty), "C01: no stale direct pointer to a released page");
  WITNESS("end");
}
#endif

#ifdef HARNESS_h_find_free
/* C01/C08: the page search of the allocation slow path (mi_find_free_page -> mi_page_queue_find_free_ex): the page it returns belongs
   to the heap, is of the requested size class, has a block on its free list and sits at the front of its size queue; a page is
   parked in the full queue only when it has neither a free block nor room to grow (so no free memory becomes unreachable for
   allocation); no page is lost or duplicated; NULL only after a fresh page could not be obtained (twice). */
static mi_block_t MARK[NP + 1];
static uint8_t pst[NP];               /* 0 full, 1 has a free block, 2 can be extended */
static int n_fresh, n_extend;
void stub_extend_free(mi_heap_t* heap, mi_page_t* page, mi_tld_t* tld) { CHECK(page->capacity < page->reserved && page->free == NULL, "only a page with room and an empty free list is extended"); page->capacity = page->reserved; page->free = &MARK[NP]; n_extend++; }
mi_page_t* stub_page_fresh(mi_heap_t* heap, mi_page_queue_t* pq) {
  CHECK(heap == &A && pq == &A.pages[BIN], "fresh page for this heap and size class"); n_fresh++;
  if (n_fresh > 1 || !FRESH_OK) return NULL;        /* concrete answer (driver enumerates): keeps the queue head concrete in the retry */
  init_page(&PB[0], &A, false); PB[0].used = 0; PB[0].free = &MARK[NP]; mi_page_queue_push(&A, pq, &PB[0]); return &PB[0]; }
void stub_collect_retired(mi_heap_t* heap, bool force) { }
void h_find_free(void) {
  make_heaps();
  { int c = PST; for (int i = 0; i < NP; i++) { pst[i] = (uint8_t)(c % 3); c /= 3; } }      /* page states are enumerated by the driver (base-3 digits of PST); flags and the fresh-page answer stay symbolic */
  for (int i = 0; i < NP; i++) {
    PA[i].xthread_free = (uintptr_t)(((PST + i) & 1) ? MI_NO_DELAYED_FREE : MI_USE_DELAYED_FREE);      /* empty thread-free list, concrete flag (remote frees: C02/C08 lemmas) */
    if (pst[i] == 1) { PA[i].used = 3; PA[i].free = &MARK[i]; }
    else if (pst[i] == 2) { PA[i].capacity = 2; PA[i].used = 2; } }
  mi_page_t* r = mi_find_free_page(&A, QBS);
  size_t nb = check_queue(&A, &A.pages[BIN], false), nf = check_queue(&A, &A.pages[MI_BIN_FULL], true);
  bool got_fresh = (r == &PB[0]);
  CHECK(nb + nf == NP + (got_fresh ? 1 : 0) && A.page_count == NP + (got_fresh ? 1 : 0), "C01: no page is lost or duplicated by the search");
  bool all_full = true;
  for (int i = 0; i < NP; i++) {
    bool inb = in_queue(&A.pages[BIN], &PA[i]), inf = in_queue(&A.pages[MI_BIN_FULL], &PA[i]);
    CHECK(inb != inf, "every page is in exactly one queue of its heap");
    if (inf) CHECK(pst[i] == 0, "C08: only a page without a free block and without room to grow is parked in the full queue");
    if (pst[i] != 0) all_full = false;
  }
  if (r != NULL) {
    CHECK(mi_page_heap(r) == &A && r->block_size == QBS, "C01: the page found belongs to the allocating heap and to the requested size class");
    CHECK(r->free != NULL, "C01: the page found has a block ready on its free list");
    CHECK(!r->flags.x.in_full && A.pages[BIN].first == r, "the page found is at the front of its size queue");
    CHECK(got_fresh == (all_full && n_fresh == 1), "a fresh page is taken exactly when no existing page has room");
#if PST != 0 || FRESH_OK
    WITNESS("found");
#endif
#if PST == 0 && FRESH_OK
    WITNESS("fresh");
#endif
  } else {
    CHECK(all_full && n_fresh == 2 && nf == NP, "NULL only when every page is full and no fresh page could be obtained (tried twice)");
#if PST == 0 && !FRESH_OK
    WITNESS("none");
#endif
  }
  CHECK(n_extend <= 1, "at most one page is extended per search");
  mi_page_t* d = A.pages_free_direct[_mi_wsize_from_size(QBS)];
  CHECK(d == (A.pages[BIN].first != NULL ? A.pages[BIN].first : (mi_page_t*)&_mi_page_empty), "direct small-page table points at the first page of the size queue");
}
#endif

#ifdef HARNESS_h_heap_delete
/* C10: mi_heap_delete keeps every live block valid: pages go to the backing heap exactly when the two heaps store the same kind of
   objects in the same arena (mi_heap_absorb: C10.heap_absorb), otherwise they are abandoned for later adoption
   (_mi_heap_collect_abandon: C09.collect_abandon); never both, never neither; then the heap is unlinked and its descriptor freed;
   the backing heap itself is never freed. */
static int n_absorb, n_abandon, n_desc_free, step_ctr, moved_at, freed_at;
mi_arena_id_t _mi_arena_id_none(void) { return 0; }      /* as in arena.c */
void stub_heap_absorb(mi_heap_t* to, mi_heap_t* from) { CHECK(to == &B && from == &A, "pages go from the deleted heap to the backing heap"); n_absorb++; moved_at = ++step_ctr; from->page_count = 0; }
void stub_collect_abandon(mi_heap_t* h) { n_abandon++; moved_at = ++step_ctr; h->page_count = 0; }
void mi_free(void* p) mi_attr_noexcept { n_desc_free++; freed_at = ++step_ctr; CHECK(p == (void*)&A, "only the deleted heap's descriptor is freed"); }
void _mi_prim_thread_associate_default_heap(mi_heap_t* heap) { }
void h_heap_delete(void) {
  make_heaps();
  A.tag = nd_u8() & 1; B.tag = nd_u8() & 1; A.arena_id = nd_u8() & 1; B.arena_id = nd_u8() & 1;
  TLD.heaps = &A; A.next = &B; B.next = NULL;
  bool a_default = nd_bool(); _mi_heap_default = a_default ? &A : &B;
  bool del_backing = nd_bool();
  mi_heap_delete(del_backing ? &B : &A);
  if (del_backing) {
    CHECK(n_absorb == 0 && n_abandon == 1 && n_desc_free == 0, "C10: deleting the backing heap abandons its pages and keeps the heap");
    CHECK(TLD.heaps == &A && A.next == &B, "heap list unchanged");
    WITNESS("backing");
    return;
  }
  bool compat = (A.tag == B.tag && A.arena_id == B.arena_id);
  CHECK(n_absorb == (compat ? 1 : 0) && n_abandon == (compat ? 0 : 1), "C10: live pages are migrated to a compatible backing heap, otherwise abandoned (never dropped, never both)");
  CHECK(n_desc_free == 1 && freed_at > moved_at, "the descriptor is freed once, after its pages were handed over");
  CHECK(TLD.heaps == &B && B.next == NULL, "the deleted heap is unlinked from the thread's heap list");
  CHECK(_mi_heap_default == &B, "C10: the default heap falls back to the backing heap");
  if (compat) WITNESS("absorbed"); else WITNESS("abandoned");
}
#endif

#ifdef HARNESS_h_check_owned
/* C10: mi_heap_check_owned attributes an address to exactly the heap whose page area contains it */
static uint8_t AREAS[NP + 2][4 * QBS];
void h_check_owned(void) {
  make_heaps();
  for (int i = 0; i < NP; i++) PA[i].page_start = AREAS[i];
  for (int i = 0; i < 2; i++) PB[i].page_start = AREAS[NP + i];
  size_t k = nd_size(); ASSUME(k < NP + 2 && (k < NP || b_has[k - NP]));
  size_t off = nd_size(); ASSUME(off < 4 * QBS);
  void* p = &AREAS[k][off];
  bool inA = mi_heap_check_owned(&A, p), inB = mi_heap_check_owned(&B, p);
  bool aligned = (off % MI_INTPTR_SIZE) == 0;
  CHECK(inA == (aligned && k < NP), "C10: an (aligned) address inside a page of the heap is owned by it, and by no other heap");
  CHECK(inB == (aligned && k >= NP), "C10: ... likewise for the backing heap");
  CHECK(!(inA && inB), "C10: never attributed to two heaps");
  CHECK(!mi_heap_check_owned(&A, (void*)&TLD) && !mi_heap_check_owned(&B, NULL), "addresses outside every page are owned by no heap");
  if (inA) WITNESS("in A"); if (inB) WITNESS("in B");
}
#endif

#ifdef VERIF_REPLAY
int main(void) { VERIF_ENTRY(); return 0; }
#endif
