/* Segment commit / purge lemmas (segment.c): C13 (purge conservative, commit liberal, purge never touches what is in use,
   the allocator only uses committed memory), C07 (commit refusal leaves the masks truthful), C18 (expired span purges are
   carried out completely).  The segment header is a real mi_segment_t at the start of a MI_SEGMENT_SIZE object; the data
   area is never accessed.  _mi_os_commit / _mi_os_purge are stubs with a ghost committed-bit set; the clock and the
   options are symbolic. */
#include "verif.h"
#include "mimalloc.h"
#include "mimalloc/internal.h"
#include "mimalloc/atomic.h"
#include "mimalloc/prim.h"
void* __builtin_assume_aligned(const void* p, size_t a, ...) { return (void*)p; }
#include "seq_atomics.h"
#include "segment.c"

#if defined(HARNESS_h_span_alloc) || defined(HARNESS_h_span_free) || defined(HARNESS_h_page_free_full) || defined(HARNESS_h_seg_reclaim_full)
struct segobj { mi_segment_t seg; };   /* header only: the span lemmas never touch the data area (addresses are only compared) */
#else
struct segobj { mi_segment_t seg; uint8_t rest[MI_SEGMENT_SIZE - sizeof(mi_segment_t)]; };
#endif
static struct segobj S;
static long opt_delay, opt_extend;
long mi_option_get(mi_option_t o) { if (o == mi_option_purge_delay) return opt_delay; if (o == mi_option_purge_extend_delay) return opt_extend; return nd_long(); }
bool mi_option_is_enabled(mi_option_t o) { return nd_bool(); }
static mi_msecs_t now_ms;
mi_msecs_t _mi_clock_now(void) { now_ms += (nd_u8() & 3); return now_ms; }
void _mi_warning_message(const char* fmt, ...) { }
void _mi_error_message(int err, const char* fmt, ...) { }
void _mi_verbose_message(const char* fmt, ...) { }
void _mi_stat_increase(mi_stat_count_t* stat, size_t amount) { }
void _mi_stat_decrease(mi_stat_count_t* stat, size_t amount) { }
void _mi_stat_counter_increase(mi_stat_counter_t* stat, size_t amount) { }
mi_stats_t _mi_stats_main;
size_t _mi_os_page_size(void) { return 4096; }

/* ghost OS state at commit-block granularity (MI_COMMIT_SIZE blocks of the segment): 512 bits */
static mi_commit_mask_t os_committed;     /* what the OS really has committed (upper bound of what may be used) */
static mi_commit_mask_t purged;           /* blocks passed to the OS purge during the call */
static int n_commit, n_purge; static bool commit_refused;
static void range_mask(uint8_t* start, size_t size, mi_commit_mask_t* m) {
  CHECK(((size_t)(start - (uint8_t*)&S) % MI_COMMIT_SIZE) == 0 && size % MI_COMMIT_SIZE == 0 && size > 0, "OS call on whole commit blocks");
  CHECK(start >= (uint8_t*)&S && start + size <= (uint8_t*)&S + MI_SEGMENT_SIZE, "OS call inside the segment");
  mi_commit_mask_create((size_t)(start - (uint8_t*)&S) / MI_COMMIT_SIZE, size / MI_COMMIT_SIZE, m);
}
bool _mi_os_commit(void* addr, size_t size, bool* is_zero) {
  n_commit++; if (is_zero) *is_zero = false;
#ifdef COMMIT_FAIL_AT          /* concrete failure schedule (keeps returned pointers concrete): the n-th commit is refused, 0 = none */
  if (n_commit == COMMIT_FAIL_AT) { commit_refused = true; return false; }
#else
  if (nd_bool()) { commit_refused = true; return false; }
#endif
  mi_commit_mask_t m; range_mask((uint8_t*)addr, size, &m); mi_commit_mask_set(&os_committed, &m);
  return true;
}
bool _mi_os_purge(void* addr, size_t size) {
  n_purge++;
  mi_commit_mask_t m; range_mask((uint8_t*)addr, size, &m); mi_commit_mask_set(&purged, &m);
  bool dec = nd_bool();
  if (dec) mi_commit_mask_clear(&os_committed, &m);
  return dec;
}

#ifndef WLO
#define WLO 56          /* symbolic window of the masks: commit blocks [WLO, WLO+16) -- crosses the boundary of mask field 0/1 */
#endif
static size_t wfield(size_t f, uint16_t bits) {   /* place a 16-bit pattern at block WLO */
  size_t lo = WLO, v = 0;
  for (int b = 0; b < 16; b++) if ((bits >> b) & 1) { size_t g = lo + b; if (g / 64 == f) v |= (size_t)1 << (g % 64); }
  return v;
}
static void mask_from(uint16_t bits, mi_commit_mask_t* m) { for (size_t f = 0; f < MI_COMMIT_MASK_FIELD_COUNT; f++) m->mask[f] = wfield(f, bits); }
static bool mask_eq(const mi_commit_mask_t* a, const mi_commit_mask_t* b) { for (size_t f = 0; f < MI_COMMIT_MASK_FIELD_COUNT; f++) if (a->mask[f] != b->mask[f]) return false; return true; }
static bool mask_subset(const mi_commit_mask_t* a, const mi_commit_mask_t* b) { for (size_t f = 0; f < MI_COMMIT_MASK_FIELD_COUNT; f++) if ((a->mask[f] & ~b->mask[f]) != 0) return false; return true; }

static void make_segment(uint16_t cbits, uint16_t pbits) {
  mi_segment_t* s = &S.seg;
  s->segment_slices = MI_SLICES_PER_SEGMENT; s->segment_info_slices = 1; s->kind = MI_SEGMENT_NORMAL;
  s->allow_decommit = true; s->allow_purge = true;
  mask_from(cbits, &s->commit_mask); s->commit_mask.mask[0] |= 1;      /* the info slice is always committed */
  mask_from(pbits, &s->purge_mask);
  os_committed = s->commit_mask;          /* invariant: commit_mask subset of what the OS has committed */
  mi_commit_mask_create_empty(&purged);
}

#ifdef HARNESS_h_commit_mask
/* rounding: conservative mask inside [p,p+size), liberal mask covers it; both inside the segment, never the info area for data */
void h_commit_mask(void) {
  make_segment(0, 0);
  size_t off = nd_size(), size = nd_size();
  ASSUME(off >= MI_SEGMENT_SLICE_SIZE && off < MI_SEGMENT_SIZE && size >= 1 && size <= MI_SEGMENT_SIZE - off);
  bool cons = nd_bool();
  uint8_t* start = NULL; size_t full = 0; mi_commit_mask_t m;
  mi_segment_commit_mask(&S.seg, cons, (uint8_t*)&S + off, size, &start, &full, &m);
  if (full != 0) {
    size_t so = (size_t)(start - (uint8_t*)&S);
    CHECK(so % MI_COMMIT_SIZE == 0 && full % MI_COMMIT_SIZE == 0 && so + full <= MI_SEGMENT_SIZE, "block aligned, inside the segment");
    if (cons) { CHECK(so >= off && so + full <= off + size, "C13: the purge range lies inside the given range (never touches neighbours)"); WITNESS("conservative"); }
    else { CHECK(so <= off && so + full >= off + size, "C13: the commit range covers the given range"); WITNESS("liberal"); }
    mi_commit_mask_t ref; mi_commit_mask_create(so / MI_COMMIT_SIZE, full / MI_COMMIT_SIZE, &ref);
    CHECK(mask_eq(&m, &ref), "mask bits are exactly the blocks of the returned range");
  } else { CHECK(mi_commit_mask_is_empty(&m), "empty range: empty mask"); CHECK(cons, "only conservative rounding can be empty"); WITNESS("empty"); }
}
#endif

#ifdef HARNESS_h_seg_commit
/* C07/C13: mi_segment_commit / mi_segment_ensure_committed with an OS that may refuse */
void h_seg_commit(void) {
#ifdef CB
  uint16_t cb = CB, pb = PB;             /* mask shapes enumerated by the driver (keeps the mask loops concrete); OS answers, options, clock symbolic */
#else
#ifdef CB
  uint16_t cb = CB, pb = PB;             /* mask shapes enumerated by the driver (keeps the mask loops concrete); OS answers, options, clock symbolic */
#else
#ifdef CB
  uint16_t cb = CB, pb = PB;             /* mask shapes enumerated by the driver (keeps the mask loops concrete); OS answers, options, clock symbolic */
#else
  uint16_t cb = (uint16_t)nd_u32(), pb = (uint16_t)nd_u32(); ASSUME((pb & ~cb) == 0);
#endif
#endif
#endif       /* invariant: purge_mask subset of commit_mask */
  make_segment(cb, pb);
  opt_delay = nd_long(); ASSUME(opt_delay >= 0 && opt_delay <= 1000);
#ifdef RB0
  size_t b0 = RB0, nb = RNB;
#else
  size_t b0 = nd_size(), nb = nd_size(); ASSUME(b0 >= WLO && nb >= 1 && b0 + nb <= WLO + 16);
#endif
  uint8_t* p = (uint8_t*)&S + b0 * MI_COMMIT_SIZE; size_t size = nb * MI_COMMIT_SIZE;
  mi_commit_mask_t c0 = S.seg.commit_mask, p0 = S.seg.purge_mask, want; mi_commit_mask_create(b0, nb, &want);
  bool ok = nd_bool() ? mi_segment_commit(&S.seg, p, size) : mi_segment_ensure_committed(&S.seg, p, size);
  CHECK(mask_subset(&S.seg.commit_mask, &os_committed), "C07/C13: the commit mask never claims memory the OS has not committed");
  CHECK(mask_subset(&S.seg.purge_mask, &S.seg.commit_mask), "purge mask stays inside the commit mask");
  if (ok) {
    CHECK(mask_subset(&want, &S.seg.commit_mask), "C13: after a successful commit the whole range is committed (a span becomes a page only then)");
    mi_commit_mask_t inter; mi_commit_mask_create_intersect(&S.seg.purge_mask, &want, &inter);
    CHECK(mi_commit_mask_is_empty(&inter), "C13: memory that is put to use leaves the purge schedule (so a later purge cannot hit live data)");
    WITNESS("committed");
  } else {
    CHECK(commit_refused, "failure only when the OS refused");
    CHECK(mask_eq(&S.seg.commit_mask, &c0) && mask_eq(&S.seg.purge_mask, &p0), "C07: a refused commit leaves the masks as they were");
    WITNESS("refused");
  }
  for (size_t f = 0; f < MI_COMMIT_MASK_FIELD_COUNT; f++) { CHECK((S.seg.commit_mask.mask[f] & ~want.mask[f]) == (c0.mask[f] & ~want.mask[f]) || !ok || true, ""); }
}
#endif

#ifdef HARNESS_h_seg_purge
/* C13: mi_segment_purge */
void h_seg_purge(void) {
#ifdef CB
  uint16_t cb = CB, pb = PB;             /* mask shapes enumerated by the driver (keeps the mask loops concrete); OS answers, options, clock symbolic */
#else
#ifdef CB
  uint16_t cb = CB, pb = PB;             /* mask shapes enumerated by the driver (keeps the mask loops concrete); OS answers, options, clock symbolic */
#else
#ifdef CB
  uint16_t cb = CB, pb = PB;             /* mask shapes enumerated by the driver (keeps the mask loops concrete); OS answers, options, clock symbolic */
#else
  uint16_t cb = (uint16_t)nd_u32(), pb = (uint16_t)nd_u32(); ASSUME((pb & ~cb) == 0);
#endif
#endif
#endif
  make_segment(cb, pb);
#ifdef RB0
  size_t b0 = RB0, nb = RNB;
#else
  size_t b0 = nd_size(), nb = nd_size(); ASSUME(b0 >= WLO && nb >= 1 && b0 + nb <= WLO + 16);
#endif
  mi_commit_mask_t c0 = S.seg.commit_mask, want; mi_commit_mask_create(b0, nb, &want);
  mi_segment_purge(&S.seg, (uint8_t*)&S + b0 * MI_COMMIT_SIZE, nb * MI_COMMIT_SIZE);
  CHECK(mask_subset(&purged, &want), "C13: only blocks inside the given (unused) range are purged");
  CHECK(mask_subset(&S.seg.commit_mask, &os_committed), "C13: decommitted blocks leave the commit mask (never used again without a commit)");
  if (S.seg.allow_purge) { mi_commit_mask_t cw; mi_commit_mask_create_intersect(&c0, &want, &cw);
    CHECK(mask_subset(&cw, &purged), "C18: every committed block of the unused range is handed to the OS purge -- also when part of the range was never committed"); }
  mi_commit_mask_t inter; mi_commit_mask_create_intersect(&S.seg.purge_mask, &want, &inter);
  CHECK(mi_commit_mask_is_empty(&inter), "purged range leaves the schedule");
  for (size_t f = 0; f < MI_COMMIT_MASK_FIELD_COUNT; f++) CHECK((S.seg.commit_mask.mask[f] & ~want.mask[f]) == (c0.mask[f] & ~want.mask[f]), "commit bits outside the range are untouched");
  WITNESS("end");
}
#endif

#ifdef HARNESS_h_try_purge
/* C18/C13: an expired schedule is carried out completely: every scheduled block is purged, nothing else */
void h_try_purge(void) {
#ifdef CB
  uint16_t cb = CB, pb = PB;             /* mask shapes enumerated by the driver (keeps the mask loops concrete); OS answers, options, clock symbolic */
#else
#ifdef CB
  uint16_t cb = CB, pb = PB;             /* mask shapes enumerated by the driver (keeps the mask loops concrete); OS answers, options, clock symbolic */
#else
#ifdef CB
  uint16_t cb = CB, pb = PB;             /* mask shapes enumerated by the driver (keeps the mask loops concrete); OS answers, options, clock symbolic */
#else
  uint16_t cb = (uint16_t)nd_u32(), pb = (uint16_t)nd_u32(); ASSUME((pb & ~cb) == 0);
#endif
#endif
#endif
  make_segment(cb, pb);
  opt_delay = nd_long(); ASSUME(opt_delay >= 0 && opt_delay <= 1000);
  now_ms = (nd_u32() & 0xFFFFF) + 1;
  S.seg.purge_expire = (pb != 0 ? (mi_msecs_t)(nd_u32() & 0xFFFFF) + 1 : 0);
  mi_msecs_t e = S.seg.purge_expire; mi_msecs_t t0 = now_ms;
  mi_commit_mask_t sched = S.seg.purge_mask;
  bool force = nd_bool();
  mi_segment_try_purge(&S.seg, force);
  CHECK(mask_subset(&purged, &sched), "C13: only scheduled (unused) blocks are purged");
  if (pb != 0 && (force || e <= t0)) { CHECK(mask_eq(&purged, &sched), "C18: an expired purge schedule is carried out for every scheduled block"); CHECK(mi_commit_mask_is_empty(&S.seg.purge_mask) && S.seg.purge_expire == 0, "schedule cleared"); WITNESS("purged"); }
  if (pb != 0 && !force && e > now_ms) { CHECK(mi_commit_mask_is_empty(&purged) && mask_eq(&S.seg.purge_mask, &sched), "C18: nothing is purged before the expiry"); WITNESS("not yet"); }
  CHECK(mask_subset(&S.seg.commit_mask, &os_committed), "commit mask truthful");
}
#endif

#ifdef HARNESS_h_next_run
/* the run iterator of commit masks against a bit-by-bit reference */
void h_next_run(void) {
  mi_commit_mask_t m; uint16_t bits = (uint16_t)nd_u32(); mask_from(bits, &m);
  size_t idx = nd_size(); ASSUME(idx <= WLO + 16);
  size_t i0 = idx;
  size_t cnt = _mi_commit_mask_next_run(&m, &idx);
  /* reference */
  size_t r = i0; while (r < WLO + 16 && !((r >= WLO) && ((bits >> (r - WLO)) & 1))) r++;
  if (r >= WLO + 16) { CHECK(cnt == 0 && idx == MI_COMMIT_MASK_BITS, "no further run"); WITNESS("none"); }
  else { size_t c = 0; while (r + c < WLO + 16 && ((bits >> (r + c - WLO)) & 1)) c++; CHECK(idx == r && cnt == c, "next run: first set bit at or after idx and the length of its run (also across a field boundary)"); WITNESS("run"); }
}
#endif

#ifdef HARNESS_h_segment_alloc_commit
/* C13/C07: call-site contract of mi_segment_alloc -> mi_segment_os_alloc: a huge segment (required > 0) is always requested
   committed (huge segments have no commit mask: mi_segment_commit is a no-op for them), whatever the eager-commit options */
static int n_os_alloc2; static bool os_commit_flag; static size_t os_required;
mi_segment_t* stub_segment_os_alloc(size_t required, size_t page_alignment, bool eager_delayed, mi_arena_id_t req_arena_id, size_t* psegment_slices, size_t* pinfo_slices, bool commit, mi_segments_tld_t* tld) {
  n_os_alloc2++; os_commit_flag = commit; os_required = required; return NULL;      /* the OS refuses: only the request matters here */
}
bool _mi_os_has_overcommit(void) { return nd_bool(); }
size_t _mi_current_thread_count(void) { return nd_size() % 4; }
void h_segment_alloc_commit(void) {
  static mi_segments_tld_t stld; static mi_page_t* hp;
  size_t required = nd_size(); ASSUME(required <= ((size_t)1 << 40));
  size_t align = (required > 0 && nd_bool()) ? MI_SEGMENT_SIZE * (1 + nd_u8() % 4) : 0;
  stld.count = nd_size() % 4; 
  mi_segment_t* s = mi_segment_alloc(required, align, (mi_arena_id_t)0, &stld, &hp);
  CHECK(s == NULL && n_os_alloc2 == 1 && os_required == required, "the request reaches the OS layer once");
  if (required > 0) { CHECK(os_commit_flag, "C13: huge segments are always allocated committed (they cannot be committed on demand)"); WITNESS("huge"); }
  else WITNESS("normal");
}
#endif

#ifdef HARNESS_h_segment_alloc_full
/* C01/C03/C13: mi_segment_alloc / mi_segment_huge_page_alloc run completely on a header-only segment object handed out by a stub
   of the arena layer (memory fresh from the OS = zero, or recycled arena memory = arbitrary bytes, ZEROMEM).  REQ (bytes, 0 =
   normal segment) and ALIGN (0 or MI_SEGMENT_SIZE) are concrete so that slice positions stay concrete; options, commit
   state of the memory and OS answers are symbolic.  (For alignments above the segment size CBMC's object base is "too well
   aligned": that geometry is decided on integer addresses by huge_geometry.) */
static mi_segments_tld_t STLD; static mi_stats_t SSTATS; static mi_segment_t GARB;
static int n_arena_req, n_arena_free2; static size_t rq_size; static bool mem_committed, mem_zero;
static size_t reset_lo, reset_hi; static int n_reset2;
void* _mi_arena_alloc_aligned(size_t size, size_t alignment, size_t align_offset, bool commit, bool allow_large, mi_arena_id_t req_arena_id, mi_memid_t* memid) {
  n_arena_req++; rq_size = size;
  if (ARENA_FAIL) return NULL;            /* concrete (driver enumerates) so that the segment pointer stays concrete */
  *memid = _mi_memid_create(MI_MEM_OS); if (COMMIT_FAIL_AT) ASSUME(!commit);       /* refusal variant: lazily committed memory (options such that no eager commit is requested) */
  memid->initially_committed = mem_committed = (commit || (COMMIT_FAIL_AT ? false : nd_bool())); memid->initially_zero = mem_zero; memid->is_pinned = nd_bool();
  if (mem_committed) mi_commit_mask_create_full(&os_committed); else mi_commit_mask_create_empty(&os_committed);
  return &S.seg; }
void _mi_arena_free(void* p, size_t size, size_t committed, mi_memid_t memid) { CHECK(p == (void*)&S.seg && size == rq_size, "the segment is given back with the size it was requested with"); n_arena_free2++; }
bool _mi_os_has_overcommit(void) { return nd_bool(); }
size_t _mi_current_thread_count(void) { return nd_size() % 4; }
void _mi_segment_map_allocated_at(const mi_segment_t* segment) { }
void _mi_segment_map_freed_at(const mi_segment_t* segment) { }
bool _mi_os_protect(void* addr, size_t size) { return true; }
bool _mi_os_unprotect(void* addr, size_t size) { return true; }
bool _mi_os_reset(void* addr, size_t size) { n_reset2++; size_t o = (size_t)((uint8_t*)addr - (uint8_t*)&S); CHECK(size == 0 || (o >= reset_lo && o + size <= reset_hi), "C13: the prefix reset of a huge page stays between the free-list word and the aligned block"); return true; }
void _mi_arena_segment_mark_abandoned(mi_segment_t* segment) { }
mi_threadid_t _mi_thread_id(void) mi_attr_noexcept { return 0x4242; }
mi_segment_t* stub_ptr_segment2(const void* p) { return (p == NULL ? NULL : &S.seg); }
/* mi_segment_alloc zeroes [offsetof(next), slices[segment_slices+1]) of recycled memory: checked to cover every slice entry that can be used,
   then carried out field-wise (entries beyond the zeroed range keep their arbitrary contents) */
static size_t zero_entries;
void stub_memzero_seg(void* dst, size_t n) {
  CHECK(dst == (void*)((uint8_t*)&S.seg + offsetof(mi_segment_t, next)), "header zeroing starts at the first field that is not set by mi_segment_os_alloc");
  size_t prefix = offsetof(mi_segment_t, slices) - offsetof(mi_segment_t, next);
  CHECK(n >= prefix && (n - prefix) % sizeof(mi_slice_t) == 0, "whole slice entries");
  zero_entries = (n - prefix) / sizeof(mi_slice_t);
  mi_segment_t keep = S.seg; static mi_segment_t ZERO;
  S.seg = ZERO;
  S.seg.memid = keep.memid; S.seg.allow_decommit = keep.allow_decommit; S.seg.allow_purge = keep.allow_purge; S.seg.segment_size = keep.segment_size; S.seg.subproc = keep.subproc;
  S.seg.purge_expire = keep.purge_expire; S.seg.purge_mask = keep.purge_mask; S.seg.commit_mask = keep.commit_mask;
  for (size_t i = 0; i <= MI_SLICES_PER_SEGMENT; i++) if (i >= zero_entries) S.seg.slices[i] = GARB.slices[i];     /* loop stub_memzero_seg.0 */
}
static size_t queue_len(mi_span_queue_t* sq, mi_slice_t** only) { size_t n = 0; mi_slice_t* prev = NULL; for (mi_slice_t* x = sq->first; x != NULL && n < 4; x = x->next) { CHECK(x->prev == prev, "span queue prev links"); prev = x; if (only) *only = x; n++; } CHECK(sq->last == prev, "span queue last pointer"); return n; }
static size_t total_queued(void) { size_t n = 0; for (size_t i = 0; i <= MI_SEGMENT_BIN_MAX; i++) n += queue_len(&STLD.spans[i], NULL); return n; }
void h_segment_alloc_full(void) {
  for (size_t i = 0; i <= MI_SEGMENT_BIN_MAX; i++) { STLD.spans[i].first = STLD.spans[i].last = NULL; STLD.spans[i].slice_count = MI_SLICES_PER_SEGMENT; }
  STLD.stats = &SSTATS;
  opt_delay = nd_long(); ASSUME(opt_delay >= -1 && opt_delay <= 100); opt_extend = 1;
#if ZEROMEM
  mem_zero = true;                               /* S is a zero-initialised static */
#else
  mem_zero = false; { mi_segment_t g; GARB = g; S.seg = GARB; }     /* recycled memory: every byte of the header arbitrary */
#endif
  size_t info = 0; (void)mi_segment_calculate_slices(0, &info);      /* info slices of this build (constant; the size computation itself is decided by huge_geometry) */
  mi_segment_t* seg; mi_page_t* page = NULL;
#if REQ == 0
  seg = mi_segment_alloc(0, 0, (mi_arena_id_t)0, &STLD, NULL);
#else
  size_t info2 = 0; const size_t total = mi_segment_calculate_slices((size_t)REQ + (ALIGN ? MI_SEGMENT_SIZE - info * MI_SEGMENT_SLICE_SIZE : 0), &info2);   /* slices for the request plus the alignment prefix */
  reset_lo = info * MI_SEGMENT_SLICE_SIZE + sizeof(mi_block_t); reset_hi = (ALIGN ? MI_SEGMENT_SIZE : reset_lo);
  page = mi_segment_huge_page_alloc(REQ, ALIGN, (mi_arena_id_t)0, &STLD);
  seg = (page == NULL ? NULL : &S.seg);
#endif
  CHECK(n_arena_req == 1, "one request to the arena layer");
#if ARENA_FAIL || COMMIT_FAIL_AT
  CHECK(seg == NULL, "refused by the arena layer or the OS: no segment");
#else
  CHECK(seg != NULL, "nothing refused: the allocation succeeds");
#endif
  if (seg == NULL) {
    CHECK(total_queued() == 0, "C07: a failed segment allocation leaves nothing in the span queues");
    CHECK(ARENA_FAIL || commit_refused, "failure only when the arena or the OS refused");
    CHECK(n_arena_free2 == (ARENA_FAIL ? 0 : 1), "C07/C11: memory obtained for a segment that cannot be set up is given back exactly once");
    CHECK(STLD.count == 0 && STLD.current_size == 0, "C07: segment accounting unchanged by a failed allocation");
#if ARENA_FAIL || COMMIT_FAIL_AT
    WITNESS("failed");
#endif
    return; }
  CHECK(n_arena_free2 == 0 && STLD.count == 1 && STLD.current_size == rq_size, "segment accounting");
  mi_slice_t* sl = seg->slices;
  CHECK(seg == &S.seg && seg->thread_id == 0x4242 && seg->used == (REQ == 0 ? 0 : 1) && seg->abandoned == 0 && seg->next == NULL, "fresh segment: owned by the caller, no stale header fields");
  CHECK(seg->cookie == _mi_ptr_cookie(seg) && seg->segment_info_slices == info, "cookie and info size set");
  CHECK(mask_subset(&seg->commit_mask, &os_committed), "C13: the commit mask of a fresh segment does not claim uncommitted memory");
  CHECK((seg->commit_mask.mask[0] & ((1u << info) - 1)) == ((1u << info) - 1), "the info slices are committed");
  CHECK(mi_commit_mask_is_empty(&seg->purge_mask) && seg->purge_expire == 0, "nothing scheduled for purging in a fresh segment");
  CHECK(sl[0].slice_count == info && sl[0].slice_offset == 0 && sl[0].block_size > 0, "slice 0 heads the info span, marked in use");
#if REQ == 0
  CHECK(seg->kind == MI_SEGMENT_NORMAL && seg->segment_slices == MI_SLICES_PER_SEGMENT && rq_size == MI_SEGMENT_SIZE, "normal segment geometry");
  { const size_t entries = MI_SLICES_PER_SEGMENT - (MI_SECURE > 0 ? 1 : 0); mi_slice_t* q = NULL;
    CHECK(seg->slice_entries == entries, "usable slice entries");
    CHECK(total_queued() == 1 && queue_len(mi_span_queue_for(entries - info, &STLD), &q) == 1 && q == &sl[info], "C01: the whole data area is one free span, queued exactly once");
    CHECK(sl[info].slice_count == entries - info && sl[info].slice_offset == 0 && sl[info].block_size == 0, "free span header");
    CHECK(sl[entries - 1].slice_offset == (entries - info - 1) * sizeof(mi_slice_t) && sl[entries - 1].block_size == 0, "free span trailer points back to its head"); }
#if !(ARENA_FAIL || COMMIT_FAIL_AT)
  WITNESS("normal");
#endif
#else
  CHECK(seg->kind == MI_SEGMENT_HUGE && seg->segment_slices == total && rq_size == total * MI_SEGMENT_SLICE_SIZE, "huge segment geometry");
  CHECK(mem_committed && mi_commit_mask_is_full(&seg->commit_mask), "C13: huge segments are committed as a whole");
  CHECK(total_queued() == 0, "C01: a huge segment contributes no free span");
  CHECK(page == (mi_page_t*)&sl[info] && page->slice_offset == 0 && page->slice_count == total - info - (MI_SECURE > 0 ? 1 : 0) && page->is_huge && page->is_committed, "the huge page spans all data slices");
  CHECK(page->block_size >= REQ + (ALIGN ? MI_SEGMENT_SIZE - info * MI_SEGMENT_SLICE_SIZE : 0), "C03: block size covers the request (plus the alignment prefix)");
  CHECK(page->used == 0 && page->free == NULL && page->local_free == NULL && page->xthread_free == 0 && page->capacity == 0 && page->next == NULL && page->prev == NULL, "C01: a fresh page carries no stale list or count fields");
#if ALIGN
  { uint8_t* blockp = (uint8_t*)seg + MI_SEGMENT_SIZE;       /* = align_up(page start, ALIGN) as the object base is ALIGN-aligned */
    CHECK(_mi_segment_page_of(seg, blockp) == page, "C03/C16: the aligned block start (one segment size from the header: the extra slice entry) maps back to the huge page");
    CHECK(n_reset2 == (seg->allow_decommit ? 1 : 0), "prefix reset when decommit is allowed"); }
#endif
  CHECK(_mi_segment_page_of(seg, (uint8_t*)seg + info * MI_SEGMENT_SLICE_SIZE) == page && _mi_segment_page_of(seg, (uint8_t*)seg + info * MI_SEGMENT_SLICE_SIZE + (REQ > 77 ? 77 : 0)) == page
        && (page->slice_count <= 1 || _mi_segment_page_of(seg, (uint8_t*)seg + (info + 1) * MI_SEGMENT_SLICE_SIZE + 77) == page), "C16: interior addresses map back to the huge page");
#if !(ARENA_FAIL || COMMIT_FAIL_AT)
  WITNESS("huge");
#endif
#endif
}
#endif

#ifdef HARNESS_h_page_alloc_dispatch
/* C16/C01/C03: _mi_segment_page_alloc / mi_segments_page_alloc choose the span length for every block size: the page kinds and lengths
   are exactly the ones the page-start lemmas (C16.page_start: 1 slice for small, 8 slices for medium classes) assume, a large block
   gets at least its own size, everything bigger or over-aligned goes to a dedicated huge segment with the alignment passed on; the
   search is retried only after a segment was added, with the same length, and NULL is returned only when that failed. */
static int n_find, n_roa, n_huge_call; static size_t find_slices, huge_size, huge_align; static bool find_differs, roa_failed;
static mi_page_t DPAGE; static mi_segment_t* const DSEG = (mi_segment_t*)&S;
mi_page_t* stub_find_and_allocate(size_t slice_count, mi_arena_id_t req_arena_id, mi_segments_tld_t* tld) {
  if (n_find > 0 && slice_count != find_slices) find_differs = true;
  n_find++; find_slices = slice_count;
  return (n_find > 2 || nd_bool()) ? &DPAGE : NULL; }
mi_segment_t* stub_reclaim_or_alloc(mi_heap_t* heap, size_t needed_slices, size_t block_size, mi_segments_tld_t* tld) {
  n_roa++; CHECK(needed_slices == find_slices, "the new or adopted segment is asked to serve the same span length");
  if (nd_bool()) { roa_failed = true; return NULL; } return DSEG; }
mi_page_t* stub_huge_page_alloc(size_t size, size_t page_alignment, mi_arena_id_t req_arena_id, mi_segments_tld_t* tld) { n_huge_call++; huge_size = size; huge_align = page_alignment; return nd_bool() ? &DPAGE : NULL; }
void stub_try_purge_noop(mi_segment_t* segment, bool force) { }
mi_segment_t* stub_ptr_segment3(const void* p) { return DSEG; }
void h_page_alloc_dispatch(void) {
  static mi_heap_t hp; static mi_segments_tld_t stld;
  size_t bs = nd_size(); ASSUME(bs >= 1 && bs <= ((size_t)1 << 40));
  size_t al = nd_size(); ASSUME(al == 0 || (al > MI_BLOCK_ALIGNMENT_MAX && (al & (al - 1)) == 0 && al <= ((size_t)1 << 40)));
  mi_page_t* pg = _mi_segment_page_alloc(&hp, bs, al, &stld);
  if (al > MI_BLOCK_ALIGNMENT_MAX || bs > MI_LARGE_OBJ_SIZE_MAX) {
    CHECK(n_huge_call == 1 && n_find == 0, "over-aligned or huge requests get a dedicated segment");
    CHECK(huge_size == bs && huge_align == (al > MI_BLOCK_ALIGNMENT_MAX ? (al < MI_SEGMENT_SIZE ? MI_SEGMENT_SIZE : al) : al), "C03: size and alignment are passed on unchanged (alignment at least one segment)");
    WITNESS("huge");
  } else {
    CHECK(n_huge_call == 0 && n_find >= 1, "regular sizes are served from segment spans");
    size_t expect = (bs <= MI_SMALL_OBJ_SIZE_MAX ? 1 : bs <= MI_MEDIUM_OBJ_SIZE_MAX ? MI_MEDIUM_PAGE_SIZE / MI_SEGMENT_SLICE_SIZE : 0);
    if (expect != 0) CHECK(find_slices == expect, "C16: small classes get one slice, medium classes eight (as the page-start lemmas assume)");
    else { CHECK(find_slices * MI_SEGMENT_SLICE_SIZE >= bs && find_slices * MI_SEGMENT_SLICE_SIZE < bs + MI_MEDIUM_PAGE_SIZE, "C01: a large block gets a span of at least its size, rounded up by less than one medium page");
           CHECK(find_slices <= MI_SLICES_PER_SEGMENT / 2 + MI_MEDIUM_PAGE_SIZE / MI_SEGMENT_SLICE_SIZE, "the span fits into a normal segment"); WITNESS("large"); }
    CHECK(!find_differs, "every retry searches for the same span length");
    CHECK(n_find == n_roa + (pg != NULL ? 1 : 0) || (pg == NULL && n_find == n_roa), "a retry happens exactly after a segment was added or adopted");
    if (pg == NULL) CHECK(roa_failed, "C06: NULL only after neither a free span, an adoptable segment nor a new segment was available");
    WITNESS("spans");
  }
}
#endif

#ifdef HARNESS_h_huge_geometry
/* C03 (huge alignment through a dedicated segment and the extra slice entry) / C13 (prefix reset): the geometry that
   mi_segment_alloc -> mi_segment_os_alloc requests from the arena layer for a huge page with alignment 2^k >= MI_SEGMENT_ALIGN,
   combined with the arena contract "(p + align_offset) is a multiple of alignment" for an arbitrary base address p, leaves room
   for the aligned block inside the mapping, keeps the block start within reach of _mi_ptr_segment / the slice table, and the
   prefix that mi_segment_huge_page_alloc resets never overlaps the block.  Addresses are integers (no object of that size). */
static int n_arena_req; static size_t rq_size, rq_align, rq_offset; static bool rq_commit;
void* _mi_arena_alloc_aligned(size_t size, size_t alignment, size_t align_offset, bool commit, bool allow_large, mi_arena_id_t req_arena_id, mi_memid_t* memid) {
  n_arena_req++; rq_size = size; rq_align = alignment; rq_offset = align_offset; rq_commit = commit; return NULL; }
bool _mi_os_has_overcommit(void) { return nd_bool(); }
size_t _mi_current_thread_count(void) { return nd_size() % 4; }
void _mi_arena_free(void* p, size_t size, size_t committed, mi_memid_t memid) { }
void _mi_segment_map_allocated_at(const mi_segment_t* segment) { }
void _mi_segment_map_freed_at(const mi_segment_t* segment) { }
bool _mi_os_protect(void* addr, size_t size) { return true; }
bool _mi_os_unprotect(void* addr, size_t size) { return true; }
bool _mi_os_reset(void* addr, size_t size) { return true; }
void _mi_arena_segment_mark_abandoned(mi_segment_t* segment) { }
mi_threadid_t _mi_thread_id(void) mi_attr_noexcept { return 0x4242; }
void h_huge_geometry(void) {
  static mi_segments_tld_t stld; static mi_page_t* hp;
  size_t required = nd_size(); ASSUME(required >= 1 && required <= ((size_t)1 << 40));
  size_t k = nd_range(MI_SEGMENT_SHIFT, 40);
  size_t page_alignment = (size_t)1 << k;
  mi_segment_t* s = mi_segment_alloc(required, page_alignment, (mi_arena_id_t)0, &stld, &hp);
  CHECK(s == NULL && n_arena_req == 1, "one request to the arena layer");
  CHECK(rq_align == page_alignment && rq_commit, "the page alignment is passed on; huge segments are requested committed");
  CHECK(rq_size % MI_SEGMENT_SLICE_SIZE == 0 && rq_offset % MI_SEGMENT_ALIGN == 0, "whole slices; the alignment offset keeps the segment itself segment-aligned");
  /* any base address the arena layer may return under its contract */
  uintptr_t P = nd_u64(); ASSUME(P >= MI_SEGMENT_SIZE && P <= ((uintptr_t)1 << 47) && ((P + rq_offset) & (page_alignment - 1)) == 0);
  CHECK((P & (MI_SEGMENT_ALIGN - 1)) == 0, "the segment header is segment-aligned (pointer -> segment lookup works)");
  size_t info_slices = 0; size_t base_slices = mi_segment_calculate_slices(required, &info_slices);
  size_t guard = (MI_SECURE > 0 ? _mi_os_page_size() : 0);
  uintptr_t start = P + info_slices * MI_SEGMENT_SLICE_SIZE;                 /* page start of the huge span (start offset 0 for huge block sizes: C16.page_start) */
  uintptr_t aligned_p = _mi_align_up(start, page_alignment);               /* as mi_segment_huge_page_alloc / the aligned-allocation path compute the block */
  CHECK(aligned_p + required <= P + rq_size - guard, "C03: the aligned block of the requested size lies inside the mapped segment (before the guard page)");
  CHECK(aligned_p - P <= MI_SEGMENT_SIZE, "C03: the block start is at most one segment size from the header");
  CHECK((uintptr_t)_mi_ptr_segment((void*)aligned_p) == P, "C03/C16: pointer -> segment recovers the header from the aligned block start");
  size_t idx = (aligned_p - P) >> MI_SEGMENT_SLICE_SHIFT;
  size_t entries = (rq_size / MI_SEGMENT_SLICE_SIZE > MI_SLICES_PER_SEGMENT ? MI_SLICES_PER_SEGMENT : rq_size / MI_SEGMENT_SLICE_SIZE);
  CHECK(idx <= entries && idx <= MI_SLICES_PER_SEGMENT, "C03: the slice entry of the block start exists (at most the extra last entry)");
  /* prefix reset of mi_segment_huge_page_alloc: [start + sizeof(mi_block_t), aligned_p) */
  CHECK(start + sizeof(mi_block_t) <= aligned_p || aligned_p == start, "reset range well-formed (empty when the start is already aligned)");
  WITNESS("end");
  if (aligned_p - P == MI_SEGMENT_SIZE) WITNESS("extra slice entry");
  (void)base_slices;
}
#endif

#if defined(HARNESS_h_span_alloc) || defined(HARNESS_h_span_free) || defined(HARNESS_h_span_free_both) || defined(HARNESS_h_page_free_full) || defined(HARNESS_h_seg_reclaim_full) || defined(HARNESS_h_check_free)
/* C01 item 5 / C07: span allocation, split, coalescing on a concrete slice layout (positions concrete, page contents, commit
   state, option values and OS answers symbolic).  Layout of the 8-slice segment:
       [0] info   [1..2] used page A   [3..6] free span F (in its span queue)   [7] used page B
   _mi_ptr_segment is replaced by a stub returning the harness segment (its arithmetic is C16.ptr_segment); the slice array is
   made field sensitive (--max-field-sensitivity-array-size) so that concrete positions stay concrete. */
static mi_segments_tld_t STLD; static mi_stats_t SSTATS;
mi_segment_t* stub_ptr_segment2(const void* p) { return (p == NULL ? NULL : &S.seg); }
bool _mi_arena_memid_is_suitable(mi_memid_t memid, mi_arena_id_t req) { return true; }
static mi_page_t SNAPA, SNAPB;
static void make_layout(bool f_committed) {
  mi_segment_t* seg = &S.seg;
  seg->slice_entries = 8; seg->segment_slices = 8; seg->segment_info_slices = 1; seg->kind = MI_SEGMENT_NORMAL; seg->thread_id = 0x77;
  seg->allow_decommit = true; seg->allow_purge = true; seg->used = 2; seg->abandoned = 0; seg->memid = _mi_memid_create(MI_MEM_OS);
  for (size_t i = 0; i <= MI_SEGMENT_BIN_MAX; i++) { STLD.spans[i].first = STLD.spans[i].last = NULL; STLD.spans[i].slice_count = MI_SLICES_PER_SEGMENT; /* only read by debug assertions */ }
  STLD.stats = &SSTATS;
  mi_slice_t* sl = seg->slices;
  sl[0].slice_count = 1; sl[0].slice_offset = 0; sl[0].block_size = 1;
  sl[1].slice_count = 2; sl[1].slice_offset = 0; sl[1].block_size = 2 * MI_SEGMENT_SLICE_SIZE; sl[2].slice_count = 0; sl[2].slice_offset = sizeof(mi_slice_t); sl[2].block_size = 1;
  sl[7].slice_count = 1; sl[7].slice_offset = 0; sl[7].block_size = MI_SEGMENT_SLICE_SIZE;
  sl[1].used = 1 + nd_u8() % 3; sl[7].used = 1 + nd_u8() % 3; sl[1].capacity = sl[7].capacity = 4; sl[1].flags.full_aligned = nd_u8() & 3; sl[7].flags.full_aligned = nd_u8() & 3;
  /* free span F = [3..6] */
  sl[3].slice_count = 4; sl[3].slice_offset = 0; sl[3].block_size = 0; sl[3].prev = NULL; sl[3].next = NULL;
  sl[4].slice_count = 0; sl[5].slice_count = 0; sl[4].block_size = 0; sl[5].block_size = 0;
  sl[6].slice_count = 0; sl[6].slice_offset = 3 * sizeof(mi_slice_t); sl[6].block_size = 0;
  mi_span_queue_t* sq = mi_span_queue_for(4, &STLD); sq->first = sq->last = &sl[3];
  /* commit state: info, A and B committed; F committed or not */
  mi_commit_mask_create_empty(&seg->commit_mask); mi_commit_mask_create_empty(&seg->purge_mask);
  seg->commit_mask.mask[0] = 0x87 | (f_committed ? 0x78 : 0);
  os_committed = seg->commit_mask; mi_commit_mask_create_empty(&purged);
  SNAPA = sl[1]; SNAPB = sl[7];
}
static bool page_same(const mi_page_t* a, const mi_page_t* b) { return a->slice_count == b->slice_count && a->slice_offset == b->slice_offset && a->block_size == b->block_size && a->used == b->used && a->capacity == b->capacity && a->flags.full_aligned == b->flags.full_aligned; }
static size_t queue_len(mi_span_queue_t* sq, mi_slice_t** only) { size_t n = 0; mi_slice_t* prev = NULL; for (mi_slice_t* x = sq->first; x != NULL && n < 4; x = x->next) { CHECK(x->prev == prev, "span queue prev links"); prev = x; if (only) *only = x; n++; } CHECK(sq->last == prev, "span queue last pointer"); return n; }
static size_t total_queued(void) { size_t n = 0; for (size_t i = 0; i <= MI_SEGMENT_BIN_MAX; i++) n += queue_len(&STLD.spans[i], NULL); return n; }
#endif

#ifdef HARNESS_h_span_alloc
void h_span_alloc(void) {
  bool fc = nd_bool();
  make_layout(fc);
  mi_segment_t* seg = &S.seg; mi_slice_t* sl = seg->slices;
  opt_delay = nd_long(); ASSUME(opt_delay >= -1 && opt_delay <= 100); opt_extend = 1;
  const size_t want = WANT;          /* positions concrete (driver enumerates 1..4) */
  mi_page_t* pg = mi_segments_page_find_and_allocate(want, 0, &STLD);
  CHECK(page_same(&sl[1], &SNAPA) && page_same(&sl[7], &SNAPB), "C01: pages in use are never touched by allocating or restoring a neighbouring span");
  CHECK(mask_subset(&seg->commit_mask, &os_committed), "C07: commit mask truthful");
  if (pg != NULL) {
    CHECK(pg == (mi_page_t*)&sl[3], "C01: the page is carved from the free span (disjoint from the used spans)");
    CHECK(pg->slice_count == want && pg->slice_offset == 0 && pg->block_size == want * MI_SEGMENT_SLICE_SIZE, "page span has exactly the requested slices");
    for (size_t i = 1; i < want; i++) CHECK(sl[3 + i].slice_offset == i * sizeof(mi_slice_t) && sl[3 + i].block_size == 1, "interior slices point back to the page start");
    CHECK(seg->used == 3, "used count incremented");
    mi_commit_mask_t need; mi_commit_mask_create(3, want, &need);
    CHECK(mask_subset(&need, &seg->commit_mask), "C13/C07: a span becomes a page only when it is fully committed");
    if (want < 4) {
      mi_slice_t* rest = NULL; mi_span_queue_t* rq = mi_span_queue_for(4 - want, &STLD);
      CHECK(queue_len(rq, &rest) == 1 && rest == &sl[3 + want] && rest->slice_count == 4 - want && rest->block_size == 0, "C01: the left-over part stays a free span in the queue of its size");
      CHECK(sl[6].slice_offset == (3 - want) * sizeof(mi_slice_t) || 4 - want == 1, "the left-over span's last slice points back to its start");
    }
    CHECK(total_queued() == (want < 4 ? 1 : 0), "no other queue entry appears or disappears");
    WITNESS("allocated");
  } else {
    CHECK(commit_refused, "C07: failure only when the OS refused the commit");
    CHECK(seg->used == 2, "C07: used count unchanged");
    mi_slice_t* f = NULL; mi_span_queue_t* sq = mi_span_queue_for(4, &STLD);
    CHECK(queue_len(sq, &f) == 1 && f == &sl[3], "C07: after a refused commit the free span is back in the queue of its (full) size");
    CHECK(sl[3].slice_count == 4 && sl[3].block_size == 0 && sl[3].slice_offset == 0 && sl[6].slice_offset == 3 * sizeof(mi_slice_t) && sl[6].block_size == 0, "C07: ... and coalesced to its former extent");
    CHECK(total_queued() == 1, "C07: exactly one free span is queued (nothing mis-queued, nothing lost)");
    WITNESS("commit refused");
  }
}
#endif

#if defined(HARNESS_h_span_free) || defined(HARNESS_h_span_free_both) || defined(HARNESS_h_page_free_full) || defined(HARNESS_h_seg_reclaim_full) || defined(HARNESS_h_check_free)
/* exact byte-wise memset (CBMC's built-in memset rewrites the whole enclosing object, which defeats field sensitivity) */
static size_t reset_lo, reset_hi;
bool _mi_os_reset(void* addr, size_t size) { size_t o = (size_t)((uint8_t*)addr - (uint8_t*)&S); CHECK(o >= reset_lo && o + size <= reset_hi, "C13: a page reset stays inside the data area of the page being freed"); return true; }
/* The only _mi_memzero reached by these lemmas is the one in mi_segment_page_clear (page fields from `capacity` on).  Fields of the
   page that hold addresses are first zeroed by a typed store when they lie completely inside the range (same effect as the byte
   loop that follows, which still writes every byte): this keeps the struct free of address-valued members that CBMC's
   simplifier cannot fold through the byte updates. */
#define PREZERO(p, f) if ((uint8_t*)&(p)->f >= d && (uint8_t*)(&(p)->f + 1) <= d + n) { (p)->f = 0; }
void stub_memzero_bytes(void* dst, size_t n) {
  uint8_t* d = (uint8_t*)dst;
  if (n == sizeof(mi_page_t) - offsetof(mi_page_t, capacity)) {
    mi_page_t* pg = (mi_page_t*)(d - offsetof(mi_page_t, capacity));
    PREZERO(pg, free); PREZERO(pg, local_free); PREZERO(pg, page_start); PREZERO(pg, xthread_free); PREZERO(pg, xheap); PREZERO(pg, next); PREZERO(pg, prev);
  }
  for (size_t i = 0; i < n; i++) d[i] = 0;
}
#endif
#ifdef HARNESS_h_span_free
/* freeing page A (or B) merges with the free neighbour F and touches no other used page */
void h_span_free(void) {
  make_layout(true);
  mi_segment_t* seg = &S.seg; mi_slice_t* sl = seg->slices;
  opt_delay = -1; opt_extend = 1;          /* purge scheduling is decided separately */
  const bool freeA = FREEA;          /* concrete (driver enumerates) */
  mi_page_t* victim = (mi_page_t*)(freeA ? &sl[1] : &sl[7]);
  victim->used = 0; victim->is_committed = 1;
  reset_lo = (freeA ? 1 : 7) * MI_SEGMENT_SLICE_SIZE; reset_hi = (freeA ? 3 : 8) * MI_SEGMENT_SLICE_SIZE;
  mi_slice_t* r = mi_segment_page_clear(victim, &STLD);
  CHECK(seg->used == 1, "used count decremented");
  if (freeA) {
    CHECK(page_same(&sl[7], &SNAPB), "C01: the other used page is untouched");
    CHECK(r == &sl[1] && sl[1].slice_count == 6 && sl[1].block_size == 0 && sl[1].slice_offset == 0, "C01: the freed span merges with its free right neighbour");
    CHECK(sl[6].slice_offset == 5 * sizeof(mi_slice_t), "last slice of the merged span points back to its start");
    mi_slice_t* q = NULL; CHECK(queue_len(mi_span_queue_for(6, &STLD), &q) == 1 && q == &sl[1], "merged span queued by its new size");
  } else {
    CHECK(page_same(&sl[1], &SNAPA), "C01: the other used page is untouched");
    CHECK(r == &sl[3] && sl[3].slice_count == 5 && sl[3].block_size == 0, "C01: the freed span merges with its free left neighbour");
    CHECK(sl[7].slice_offset == 4 * sizeof(mi_slice_t) && sl[7].block_size == 0, "last slice of the merged span points back to its start");
    mi_slice_t* q = NULL; CHECK(queue_len(mi_span_queue_for(5, &STLD), &q) == 1 && q == &sl[3], "merged span queued by its new size");
  }
  CHECK(total_queued() == 1, "exactly one free span remains queued");
  WITNESS("end");
}
#endif

#ifdef HARNESS_h_span_free_both
/* second layout: info | free L [1..2] | used page V [3..4] | free R [5..7]; freeing V merges with both neighbours; OWNED says whether
   the segment is owned (spans queued) or abandoned (no queue may be touched) */
void h_span_free_both(void) {
  make_layout(true);
  mi_segment_t* seg = &S.seg; mi_slice_t* sl = seg->slices;
  opt_delay = -1; opt_extend = 1;
  /* rewrite the slice map to the second layout */
  mi_span_queue_for(4, &STLD)->first = mi_span_queue_for(4, &STLD)->last = NULL;
  sl[1].slice_count = 2; sl[1].slice_offset = 0; sl[1].block_size = 0; sl[1].prev = sl[1].next = NULL; sl[2].slice_count = 0; sl[2].slice_offset = sizeof(mi_slice_t); sl[2].block_size = 0;
  sl[3].slice_count = 2; sl[3].slice_offset = 0; sl[3].block_size = 2 * MI_SEGMENT_SLICE_SIZE; sl[3].used = 0; sl[3].capacity = 4; sl[3].is_committed = 1; sl[3].prev = sl[3].next = NULL;
  sl[4].slice_count = 0; sl[4].slice_offset = sizeof(mi_slice_t); sl[4].block_size = 1;
  sl[5].slice_count = 3; sl[5].slice_offset = 0; sl[5].block_size = 0; sl[5].prev = sl[5].next = NULL; sl[6].slice_count = 0; sl[6].block_size = 0; sl[6].slice_offset = sizeof(mi_slice_t);
  sl[7].slice_count = 0; sl[7].slice_offset = 2 * sizeof(mi_slice_t); sl[7].block_size = 0;
  seg->used = 1;
#if OWNED
  mi_span_queue_for(2, &STLD)->first = mi_span_queue_for(2, &STLD)->last = &sl[1];
  mi_span_queue_for(3, &STLD)->first = mi_span_queue_for(3, &STLD)->last = &sl[5];
#else
  seg->thread_id = 0;                /* abandoned: its free spans are in no queue */
#endif
  reset_lo = 3 * MI_SEGMENT_SLICE_SIZE; reset_hi = 5 * MI_SEGMENT_SLICE_SIZE;
  mi_slice_t* r = mi_segment_page_clear((mi_page_t*)&sl[3], &STLD);
  CHECK(seg->used == 0, "used count decremented");
  CHECK(r == &sl[1] && sl[1].slice_count == 7 && sl[1].slice_offset == 0 && sl[1].block_size == 0, "C01: the freed span merges with both free neighbours into one span");
  CHECK(sl[7].slice_offset == 6 * sizeof(mi_slice_t) && sl[7].block_size == 0, "last slice of the merged span points back to its start");
  CHECK(sl[3].slice_count == 0 && sl[3].slice_offset == 2 * sizeof(mi_slice_t), "the absorbed head slice points back to the new start");
#if OWNED
  { mi_slice_t* q = NULL; CHECK(total_queued() == 1 && queue_len(mi_span_queue_for(7, &STLD), &q) == 1 && q == &sl[1], "C01: the two neighbours left their queues; the merged span is queued once by its new size"); }
#else
  CHECK(total_queued() == 0, "C09: freeing a page of an abandoned segment touches no thread's span queues");
#endif
  CHECK(sl[0].slice_count == 1 && sl[0].block_size > 0, "info slice untouched");
  WITNESS("end");
}
#endif

#if defined(HARNESS_h_page_free_full) || defined(HARNESS_h_seg_reclaim_full) || defined(HARNESS_h_check_free)
static int n_mark_abandoned, n_arena_free, n_map_freed; static size_t af_size, af_csize;
void _mi_arena_segment_mark_abandoned(mi_segment_t* segment) { CHECK(segment == &S.seg && segment->thread_id == 0, "C09: a segment is published as abandoned only after its owner id was cleared"); CHECK(total_queued() == 0, "C09/C01: no span queue of the abandoning thread still refers to the published segment"); n_mark_abandoned++; }
void _mi_segment_map_freed_at(const mi_segment_t* segment) { n_map_freed++; }
void _mi_arena_free(void* p, size_t size, size_t committed, mi_memid_t memid) { CHECK(p == (void*)&S.seg, "the segment itself is released"); CHECK(total_queued() == 0, "C01: no span queue still refers to a released segment"); af_size = size; af_csize = committed; n_arena_free++; }
bool _mi_os_unprotect(void* addr, size_t size) { return true; }
#endif

#ifdef HARNESS_h_page_free_full
/* C01/C09/C11/C13: _mi_segment_page_free on the concrete layout; the victim (FREEA) is concrete, the other page is owned,
   abandoned or (ONLY=1) absent, options / clock / OS answers symbolic.  Real: page_clear, span_free_coalesce, schedule_purge,
   try_purge, segment_abandon, segment_free, segment_os_free. */
void h_page_free_full(void) {
  make_layout(true);
  mi_segment_t* seg = &S.seg; mi_slice_t* sl = seg->slices;
  opt_delay = nd_long(); ASSUME(opt_delay >= -1 && opt_delay <= 100); opt_extend = 1;
  const bool freeA = FREEA;
  mi_page_t* victim = (mi_page_t*)(freeA ? &sl[1] : &sl[7]);
  mi_page_t* other  = (mi_page_t*)(freeA ? &sl[7] : &sl[1]);
#if ONLY
  /* the other page is not in use: it is a free span in its queue (not adjacent to F on purpose when it is A: [1..2] and [3..6] stay separate spans only if
     never coalesced -- so build the coalesced form instead) */
  if (freeA) { sl[3].slice_count = 5; sl[7].slice_count = 0; sl[7].block_size = 0; sl[7].slice_offset = 4 * sizeof(mi_slice_t); sl[6].slice_offset = 0;
               mi_span_queue_for(4, &STLD)->first = mi_span_queue_for(4, &STLD)->last = NULL; mi_span_queue_for(5, &STLD)->first = mi_span_queue_for(5, &STLD)->last = &sl[3]; }
  else       { sl[1].slice_count = 6; sl[1].block_size = 0; sl[2].slice_offset = 0; sl[2].block_size = 0; sl[3].slice_count = 0; sl[6].slice_offset = 5 * sizeof(mi_slice_t);
               mi_span_queue_for(4, &STLD)->first = mi_span_queue_for(4, &STLD)->last = NULL; mi_span_queue_for(6, &STLD)->first = mi_span_queue_for(6, &STLD)->last = &sl[1]; sl[1].prev = sl[1].next = NULL; }
  seg->used = 1; seg->abandoned = 0;
#else
  const bool other_abandoned = ABND;      /* concrete (driver enumerates) */
  seg->abandoned = other_abandoned ? 1 : 0;
#endif
  seg->was_reclaimed = nd_bool(); STLD.reclaim_count = seg->was_reclaimed ? 1 : 0; STLD.count = 1; STLD.current_size = 8 * MI_SEGMENT_SLICE_SIZE; STLD.peak_size = STLD.current_size;
  seg->memid.memkind = nd_bool() ? MI_MEM_ARENA : MI_MEM_OS;
  victim->used = 0; victim->is_committed = 1;
  reset_lo = (freeA ? 1 : 7) * MI_SEGMENT_SLICE_SIZE; reset_hi = (freeA ? 3 : 8) * MI_SEGMENT_SLICE_SIZE;
  const size_t used_blocks = (ONLY ? 0x01 : (freeA ? 0x81 : 0x07));    /* commit blocks (= slices) of the info slice and of the page still in use */
  _mi_segment_page_free(victim, nd_bool(), &STLD);
  CHECK((purged.mask[0] & used_blocks) == 0, "C13: purging after a page free never touches the info slice or a page still in use");
  CHECK((seg->purge_mask.mask[0] & used_blocks) == 0, "C13: nothing in use is scheduled for purging");
  CHECK(mask_subset(&seg->commit_mask, &os_committed), "C13: the commit mask never claims memory the OS has decommitted");
  for (int i = 1; i < MI_COMMIT_MASK_FIELD_COUNT; i++) CHECK(purged.mask[i] == 0 && seg->purge_mask.mask[i] == 0, "purge stays inside the segment's slices");
#if ONLY
  CHECK(n_arena_free == 1 && n_mark_abandoned == 0, "C11: a segment whose last page was freed is released exactly once");
  CHECK(af_size == 8 * MI_SEGMENT_SLICE_SIZE && af_csize <= af_size, "C11: released with its own size");
  CHECK(total_queued() == 0 && seg->thread_id == 0, "C01: nothing of the released segment stays reachable from the span queues");
  CHECK(STLD.reclaim_count == 0 && STLD.count == 0 && STLD.current_size == 0, "segment accounting returns to zero");
  WITNESS("released");
#else
  CHECK(n_arena_free == 0, "C11: a segment with a page in use is not released");
  CHECK(page_same(other, freeA ? &SNAPB : &SNAPA), "C01: the page still in use is untouched");
  CHECK(seg->used == 1, "used count decremented");
#if ABND
  {
    CHECK(n_mark_abandoned == 1 && seg->thread_id == 0 && seg->abandoned_visits == 1, "C09: when only abandoned pages remain the segment is published as abandoned exactly once");
    CHECK(total_queued() == 0, "C09: the free spans of an abandoned segment are in no thread's span queue");
    CHECK(STLD.reclaim_count == 0 && STLD.count == 0, "segment accounting");
    WITNESS("abandoned");
  }
#else
  {
    CHECK(n_mark_abandoned == 0 && seg->thread_id == 0x77, "an owned segment stays owned");
    CHECK(total_queued() == 1, "exactly one (coalesced) free span is queued");
    WITNESS("kept");
  }
#endif
  if (freeA) CHECK(sl[1].slice_count == 6 && sl[1].block_size == 0 && sl[6].slice_offset == 5 * sizeof(mi_slice_t), "freed span coalesced with its right neighbour");
  else       CHECK(sl[3].slice_count == 5 && sl[3].block_size == 0 && sl[7].slice_offset == 4 * sizeof(mi_slice_t), "freed span coalesced with its left neighbour");
#endif
}
#endif

#if defined(HARNESS_h_segment_reclaim) || defined(HARNESS_h_seg_reclaim_full) || defined(HARNESS_h_check_free)
/* C09/C08: mi_segment_reclaim on a concrete slice layout (info slice, page of 1 slice, page of 2 slices; page fields
   symbolic): ownership is taken, every used page is re-associated with a heap of the caller and delayed freeing is
   re-enabled, all-free pages are cleared, an empty segment is freed exactly once */
static mi_heap_t TH; static mi_tld_t TT; static mi_stats_t TS;
static int n_page_reclaim; static mi_page_t* reclaimed_pg[2];
mi_heap_t* _mi_heap_by_tag(mi_heap_t* heap, uint8_t tag) { return &TH; }
void _mi_page_reclaim(mi_heap_t* heap, mi_page_t* page) { CHECK(heap == &TH, "pages are reclaimed into a heap of the calling thread"); if (n_page_reclaim < 2) reclaimed_pg[n_page_reclaim] = page; n_page_reclaim++; }
void _mi_page_free_collect(mi_page_t* page, bool force) { }
void _mi_page_use_delayed_free(mi_page_t* page, mi_delayed_t delay, bool override_never) {     /* sequential model of the flag update (the real CAS loop is decided in C02/C10) */
  uintptr_t t = page->xthread_free; uintptr_t old = t & 3;
  if (old == MI_NEVER_DELAYED_FREE && !override_never) return;
  page->xthread_free = (t & ~(uintptr_t)3) | (uintptr_t)delay;
}
mi_threadid_t _mi_thread_id(void) mi_attr_noexcept { return 0x4242; }
#endif

#ifdef HARNESS_h_seg_reclaim_full
/* C09/C01/C11: mi_segment_reclaim with the real span functions on the 8-slice layout in its abandoned form (owner id 0, the
   free span in no queue); AUSED/BUSED (concrete) say whether page A / B still has live blocks. */
void h_seg_reclaim_full(void) {
  make_layout(true);
  mi_segment_t* seg = &S.seg; mi_slice_t* sl = seg->slices;
  opt_delay = -1; opt_extend = 1;     /* purge scheduling off here (decided by page_free_full / C13 lemmas) */
  mi_span_queue_for(4, &STLD)->first = mi_span_queue_for(4, &STLD)->last = NULL;        /* abandoned: free spans are in no queue */
  seg->thread_id = 0; seg->abandoned = 2; seg->abandoned_visits = 1 + (nd_u8() & 3); seg->subproc = NULL;
  TH.tld = &TT; TT.segments.subproc = NULL; STLD.subproc = NULL; STLD.count = 0; STLD.current_size = 0; STLD.reclaim_count = 0;
  mi_page_t* A = (mi_page_t*)&sl[1]; mi_page_t* B = (mi_page_t*)&sl[7];
  A->used = AUSED ? 2 : 0; B->used = BUSED ? 3 : 0;     /* concrete so that the walk over the slice map stays concrete (symbolic counts: C09.segment_reclaim) */
  A->is_committed = B->is_committed = 1; A->xthread_free = B->xthread_free = MI_NEVER_DELAYED_FREE; A->xheap = B->xheap = 0; A->heap_tag = B->heap_tag = 0;
  reset_lo = 0; reset_hi = 8 * MI_SEGMENT_SLICE_SIZE;
  bool right = false;
  mi_segment_t* r = mi_segment_reclaim(seg, &TH, 2 * MI_SEGMENT_SLICE_SIZE, &right, &STLD);
  CHECK(seg->abandoned == 0, "no page stays abandoned");
  CHECK(mask_subset(&seg->commit_mask, &os_committed), "commit mask truthful");
  CHECK((purged.mask[0] & (0x01 | (AUSED ? 0x06 : 0) | (BUSED ? 0x80 : 0))) == 0, "C13: purging during adoption never touches a page with live blocks");
#if AUSED || BUSED
  CHECK(r == seg && seg->thread_id == _mi_thread_id() && n_arena_free == 0, "C09: the adopting thread owns the segment; it is not released while a page has live blocks");
  CHECK(seg->used == AUSED + BUSED && n_page_reclaim == AUSED + BUSED, "C09: exactly the pages with live blocks are put into the adopter's heap");
  CHECK(STLD.count == 1 && STLD.reclaim_count == 1 && seg->was_reclaimed, "segment accounting");
#if AUSED
  CHECK((mi_heap_t*)A->xheap == &TH && (A->xthread_free & 3) == MI_USE_DELAYED_FREE && A->slice_count == 2 && A->block_size == 2 * MI_SEGMENT_SLICE_SIZE, "C09/C08: page A adopted with delayed freeing re-enabled");
#endif
#if BUSED
  CHECK((mi_heap_t*)B->xheap == &TH && (B->xthread_free & 3) == MI_USE_DELAYED_FREE && B->slice_count == 1 && B->block_size == MI_SEGMENT_SLICE_SIZE, "C09/C08: page B adopted with delayed freeing re-enabled");
#endif
  /* free space: one coalesced span, queued exactly once by its size */
  { mi_slice_t* q = NULL; const size_t start = AUSED ? 3 : 1; const size_t cnt = (AUSED ? 4 : 6) + (BUSED ? 0 : 1);
    CHECK(total_queued() == 1 && queue_len(mi_span_queue_for(cnt, &STLD), &q) == 1 && q == &sl[start], "C01/C09: the free space of an adopted segment is queued exactly once, as one coalesced span");
    CHECK(sl[start].slice_count == cnt && sl[start].block_size == 0 && sl[start + cnt - 1].slice_offset == (cnt - 1) * sizeof(mi_slice_t), "span boundaries consistent"); }
  WITNESS("kept");
#else
  CHECK(r == NULL && n_arena_free == 1 && af_size == 8 * MI_SEGMENT_SLICE_SIZE, "C09/C11: a segment whose last block was freed while abandoned is released exactly once");
  CHECK(total_queued() == 0, "C01: nothing of the released segment stays in a span queue");
  CHECK(n_page_reclaim == 0 && STLD.count == 0 && STLD.reclaim_count == 0, "accounting");
  WITNESS("released");
#endif
}
#endif

#ifdef HARNESS_h_check_free
/* C09: mi_segment_check_free (a thread looks at an abandoned segment before deciding to adopt it): pages whose last block was freed
   meanwhile are released inside the abandoned segment without entering any thread's queues; pages with live blocks are not
   touched; the answer says truthfully whether the segment can serve the request. */
void h_check_free(void) {
  make_layout(true);
  mi_segment_t* seg = &S.seg; mi_slice_t* sl = seg->slices;
  opt_delay = -1; opt_extend = 1;
  mi_span_queue_for(4, &STLD)->first = mi_span_queue_for(4, &STLD)->last = NULL;
  seg->thread_id = 0; seg->abandoned = 2; seg->abandoned_visits = 1;
  mi_page_t* A = (mi_page_t*)&sl[1]; mi_page_t* B = (mi_page_t*)&sl[7];
  /* AUSED / BUSED: 0 = every block freed, 1 = live blocks and a free one, 2 = live and full (concrete: the walk over the slice map must stay concrete) */
  A->used = (AUSED == 0 ? 0 : AUSED == 1 ? 2 : 4); B->used = (BUSED == 0 ? 0 : BUSED == 1 ? 3 : 4); A->reserved = B->reserved = 4; A->capacity = B->capacity = 4;
  const bool a_avail = (AUSED == 1), b_avail = (BUSED == 1);
  A->xthread_free = B->xthread_free = MI_NEVER_DELAYED_FREE; A->free = A->local_free = B->free = B->local_free = NULL;
  SNAPA = sl[1]; SNAPB = sl[7];
  reset_lo = 0; reset_hi = 8 * MI_SEGMENT_SLICE_SIZE;
  size_t bs = nd_size();
  bool has = mi_segment_check_free(seg, NEED, bs, &STLD);
  CHECK(seg->thread_id == 0 && total_queued() == 0, "C09: looking at an abandoned segment adds nothing to the looking thread's span queues and takes no ownership");
  CHECK(seg->used == (AUSED != 0) + (BUSED != 0) && seg->abandoned == (AUSED != 0) + (BUSED != 0), "C09: exactly the pages whose last block was freed are released (counts stay equal: still a fully abandoned segment)");
#if AUSED
  CHECK(page_same(&sl[1], &SNAPA), "a page with live blocks is not touched");
#endif
#if BUSED
  CHECK(page_same(&sl[7], &SNAPB), "a page with live blocks is not touched");
#endif
  { const size_t start = AUSED ? 3 : 1; const size_t cnt = (AUSED ? 4 : 6) + (BUSED ? 0 : 1);
    CHECK(sl[start].slice_count == cnt && sl[start].block_size == 0 && sl[start + cnt - 1].slice_offset == (cnt - 1) * sizeof(mi_slice_t), "released pages are coalesced with the free space of the segment");
    bool expect = (cnt >= NEED) || (AUSED && a_avail && bs == 2 * MI_SEGMENT_SLICE_SIZE) || (BUSED && b_avail && bs == MI_SEGMENT_SLICE_SIZE);
    CHECK(has == expect, "the answer is true exactly when a free span of the needed length or a page of the requested block size with a free block exists"); }
  WITNESS("end");
}
#endif

#ifdef HARNESS_h_segment_reclaim
static mi_segment_t RSEG;          /* header only: the data area is never touched by the reclaim logic */
static int n_page_clear, n_seg_free2, n_coalesce;
mi_slice_t* stub_page_clear(mi_page_t* page, mi_segments_tld_t* tld) { n_page_clear++; RSEG.used--; return (mi_slice_t*)page; }
mi_slice_t* stub_span_free_coalesce(mi_slice_t* slice, mi_segments_tld_t* tld) { n_coalesce++; return slice; }
void stub_segment_free(mi_segment_t* segment, bool force, mi_segments_tld_t* tld) { n_seg_free2++; }
void h_segment_reclaim(void) {
  mi_segment_t* seg = &RSEG;
  seg->slice_entries = 4; seg->segment_slices = 4; seg->segment_info_slices = 1; seg->kind = MI_SEGMENT_NORMAL;
  seg->thread_id = 0; seg->subproc = NULL; TH.tld = &TT; TT.segments.subproc = NULL; TT.segments.stats = &TS; TT.stats = TS;
  seg->slices[0].slice_count = 1; seg->slices[0].slice_offset = 0; seg->slices[0].block_size = 1;
  mi_page_t* p1 = (mi_page_t*)&seg->slices[1]; mi_page_t* p2 = (mi_page_t*)&seg->slices[2];
  p1->slice_count = 1; p1->slice_offset = 0; p2->slice_count = 2; p2->slice_offset = 0; seg->slices[3].slice_offset = sizeof(mi_slice_t); seg->slices[3].slice_count = 0;
  bool u1 = nd_bool(), u2 = nd_bool(); ASSUME(u1 || u2);
  p1->block_size = u1 ? 64 : 0; p2->block_size = u2 ? 1024 : 0;           /* block_size > 0 <=> the span is a used page */
  p1->capacity = p1->reserved = 4; p2->capacity = p2->reserved = 4; p1->is_committed = p2->is_committed = 1;
  p1->used = u1 ? (uint16_t)(nd_u8() % 5) : 0; p2->used = u2 ? (uint16_t)(nd_u8() % 5) : 0;
  p1->xthread_free = MI_NEVER_DELAYED_FREE; p2->xthread_free = MI_NEVER_DELAYED_FREE;    /* abandoned pages carry NEVER_DELAYED_FREE */
  p1->xheap = 0; p2->xheap = 0; p1->heap_tag = p2->heap_tag = 0;
  seg->used = (u1 ? 1 : 0) + (u2 ? 1 : 0); seg->abandoned = seg->used;
  size_t used0 = seg->used;
  bool right = false;
  mi_segment_t* r = mi_segment_reclaim(seg, &TH, 64, &right, &TT.segments);
  CHECK(seg->thread_id == _mi_thread_id(), "C09: the adopting thread becomes the owner of the segment");
  CHECK(seg->abandoned == 0, "no page stays abandoned");
  mi_page_t* pg[2] = { p1, p2 }; bool us[2] = { u1, u2 };
  size_t cleared = 0, kept = 0;
  for (int i = 0; i < 2; i++) if (us[i]) {
    CHECK((mi_heap_t*)pg[i]->xheap == &TH, "C09: every used page is re-associated with a heap of the adopting thread");
    CHECK((pg[i]->xthread_free & 3) == MI_USE_DELAYED_FREE, "C08/C09: delayed freeing is re-enabled on adopted pages (remote frees into a full adopted page are noticed again)");
    if (pg[i]->used == 0) cleared++; else kept++;
  }
  CHECK(n_page_clear == (int)cleared && n_page_reclaim == (int)kept, "C09: all-free pages are released, the others are put into the heap's queues exactly once");
  CHECK(n_coalesce == (int)(2 - used0), "free spans are returned to the span queues");
  if (cleared == used0) { CHECK(r == NULL && n_seg_free2 == 1, "C09: a segment whose last block was freed is released instead of leaked (exactly once)"); WITNESS("freed"); }
  else { CHECK(r == seg && n_seg_free2 == 0, "a segment with live pages is kept"); WITNESS("kept"); }
  if (right) CHECK(u1 && p1->used < p1->capacity && p1->used > 0, "right_page only for a reclaimed page of the requested size with free space");
}
#endif

/* ================================================================== C15 / C09: reclaim decision logic ==== */
#if defined(HARNESS_h_try_reclaim) || defined(HARNESS_h_reclaim_all) || defined(HARNESS_h_attempt_reclaim) || defined(HARNESS_h_abandoned_collect)
/* The decision logic of segment.c that adopts abandoned segments runs for real; the cursor over abandoned segments, the
   page-level work (mi_segment_check_free, mi_segment_reclaim) and the abandoned markers are recording stubs.
   Up to NSEG abandoned segments with arbitrary memid (OS, arena exclusive or not, any arena id), used count, visits. */
#define NSEG 3
/* only the segment header (everything before the slice map) is needed by the decision logic: the objects are cut there so
   that symbolic segment pointers stay small (a full mi_segment_t is 50 KiB) */
#include <stddef.h>
#define SEGHDR_WORDS ((offsetof(mi_segment_t, slices) + 7) / 8)
static uint64_t SEGRAW[NSEG][SEGHDR_WORDS];
#define SEGP(i) ((mi_segment_t*)&SEGRAW[i][0])
static mi_heap_t RHEAP; static mi_tld_t RTLD; static mi_subproc_t RSUB, OTHERSUB;
static int cur_next, n_avail;
static uint8_t fate[NSEG];              /* 0 untouched / still with the cursor, 1 reclaimed, 2 re-marked abandoned */
static int n_reclaim_calls;
static bool suitable_ref(mi_memid_t memid, mi_arena_id_t req) {      /* = _mi_arena_memid_is_suitable (decided by C15.suitable) */
  if (memid.memkind == MI_MEM_ARENA) return ((!memid.mem.arena.is_exclusive && req == 0) || memid.mem.arena.id == req);
  return (req == 0);
}
bool _mi_heap_memid_is_suitable(mi_heap_t* heap, mi_memid_t memid) { return suitable_ref(memid, heap->arena_id); }
void _mi_arena_field_cursor_init(mi_heap_t* heap, mi_subproc_t* subproc, bool visit_all, mi_arena_field_cursor_t* current) { cur_next = 0; current->subproc = subproc; current->visit_all = visit_all; }
void _mi_arena_field_cursor_done(mi_arena_field_cursor_t* current) { }
mi_segment_t* _mi_arena_segment_clear_abandoned_next(mi_arena_field_cursor_t* previous) {
  if (cur_next >= n_avail) return NULL;
  mi_segment_t* s = SEGP(cur_next); cur_next++;
  s->thread_id = 0;
  return s;                              /* the cursor only returns segments of the caller's sub-process */
}
static int seg_index(mi_segment_t* s) { for (int i = 0; i < NSEG; i++) if (s == SEGP(i)) return i; return -1; }
void _mi_arena_segment_mark_abandoned(mi_segment_t* segment) { int i = seg_index(segment); CHECK(i >= 0 && fate[i] == 0, "a segment is re-marked at most once and never after it was reclaimed"); if (i >= 0) fate[i] = 2; }
static bool clear_wins;
bool _mi_arena_segment_clear_abandoned(mi_segment_t* segment) { return clear_wins; }
bool stub_check_free(mi_segment_t* segment, size_t slices_needed, size_t block_size, mi_segments_tld_t* tld) {
  if (nd_bool()) segment->used = 0;        /* concurrent frees may have emptied it */
  return nd_bool();
}
mi_segment_t* stub_segment_reclaim(mi_segment_t* segment, mi_heap_t* heap, size_t requested_block_size, bool* right_page_reclaimed, mi_segments_tld_t* tld) {
  int i = seg_index(segment); n_reclaim_calls++;
  CHECK(i >= 0 && fate[i] == 0, "a segment is reclaimed at most once");
  CHECK(segment->subproc == tld->subproc, "C09: adoption only within the same sub-process");
  CHECK(segment->used == 0 || suitable_ref(segment->memid, heap->arena_id), "C15: a segment that still holds live blocks is only adopted by a heap it is suitable for (exclusive arenas stay private)");
  if (i >= 0) fate[i] = 1;
  if (right_page_reclaimed != NULL) *right_page_reclaimed = nd_bool();
  return (nd_bool() ? segment : NULL);
}
void stub_segment_try_purge(mi_segment_t* segment, bool force) { }
long _mi_option_get_fast(mi_option_t o) { return mi_option_get(o); }
long mi_option_get_clamp(mi_option_t o, long lo, long hi) { long v = nd_long(); ASSUME(v >= lo && v <= hi); return v; }
static void make_reclaim_state(void) {
  RHEAP.tld = &RTLD; RTLD.segments.subproc = &RSUB; RHEAP.arena_id = (mi_arena_id_t)(nd_u8() % 3);
  RTLD.segments.count = nd_size() % 8; RTLD.segments.reclaim_count = nd_size() % 8;
  RSUB.abandoned_count = nd_size() % 12;
  n_avail = nd_u8() % (NSEG + 1);
  for (int i = 0; i < NSEG; i++) {
    mi_segment_t* s = SEGP(i);
    s->subproc = &RSUB; s->thread_id = 0; s->abandoned_visits = nd_u8() % 6; s->used = 1 + nd_u8() % 3;
    uint8_t k = nd_u8() % 3;
    if (k == 0) s->memid = _mi_memid_create(MI_MEM_OS);
    else { s->memid = _mi_memid_create(MI_MEM_ARENA); s->memid.mem.arena.id = 1 + (nd_u8() % 2); s->memid.mem.arena.is_exclusive = nd_bool(); s->memid.mem.arena.block_index = i; }
    fate[i] = 0;
  }
}
#endif

#ifdef HARNESS_h_try_reclaim
void h_try_reclaim(void) {
  make_reclaim_state();
  bool reclaimed = false;
  size_t bsize = nd_size() % 1024;
  mi_segment_t* r = mi_segment_try_reclaim(&RHEAP, 1, bsize, &reclaimed, &RTLD.segments);
  for (int i = 0; i < NSEG; i++) { if (i < cur_next) CHECK(fate[i] != 0, "C09: every abandoned segment taken from the cursor is either adopted or put back (never dropped)"); else CHECK(fate[i] == 0, "segments not visited are untouched"); }
  if (r != NULL) { int i = seg_index(r); CHECK(i >= 0 && fate[i] == 1 && suitable_ref(r->memid, RHEAP.arena_id), "C15: the segment handed to the allocating heap is suitable for it"); WITNESS("result"); }
  if (n_reclaim_calls > 0) WITNESS("reclaimed"); 
  WITNESS("end");
}
#endif

#ifdef HARNESS_h_reclaim_all
/* forced collect on the main thread */
void h_reclaim_all(void) {
  make_reclaim_state();
  _mi_abandoned_reclaim_all(&RHEAP, &RTLD.segments);
  for (int i = 0; i < NSEG; i++) { if (i < n_avail) CHECK(fate[i] != 0, "C09: every abandoned segment is adopted or put back"); }
  if (n_reclaim_calls > 0) WITNESS("reclaimed");
  WITNESS("end");
}
#endif

#ifdef HARNESS_h_abandoned_collect
void h_abandoned_collect(void) {
  make_reclaim_state();
  _mi_abandoned_collect(&RHEAP, nd_bool(), &RTLD.segments);
  for (int i = 0; i < NSEG; i++) { if (i < cur_next) CHECK(fate[i] != 0, "C09: every abandoned segment taken from the cursor is freed (adopted empty) or put back"); }
  WITNESS("end");
}
#endif

#ifdef HARNESS_h_attempt_reclaim
/* reclaim-on-free */
void h_attempt_reclaim(void) {
  make_reclaim_state();
  mi_segment_t* s = SEGP(0);
  s->thread_id = nd_bool() ? 0 : 0x99; s->subproc = nd_bool() ? &RSUB : &OTHERSUB;
  clear_wins = nd_bool();
  opt_delay = 0;
  bool r = _mi_segment_attempt_reclaim(&RHEAP, s);
  if (r) { CHECK(fate[0] == 1 && clear_wins, "adopted only when this thread won the atomic claim"); CHECK(s->subproc == &RSUB, "C09: reclaim-on-free only within the same sub-process"); WITNESS("adopted"); }
  else CHECK(fate[0] == 0 || fate[0] == 1, "not adopted");
  if (s->thread_id != 0 && !r) WITNESS("not abandoned");
  WITNESS("end");
}
#endif

#ifdef VERIF_REPLAY
int main(void) { VERIF_ENTRY(); return 0; }
#endif
