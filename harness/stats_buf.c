/* C20: statistics JSON buffer primitives (stats.c: mi_heap_buf_print / mi_heap_buf_expand) for every caller-supplied
   buffer size: never write outside the buffer, always terminated.  mi_rezalloc is a stub (NULL or a zeroed larger buffer). */
#include "verif.h"
#include "mimalloc.h"
#include "mimalloc/internal.h"
#include "mimalloc/atomic.h"
#include "mimalloc/prim.h"
void* __builtin_assume_aligned(const void* p, size_t a, ...) { return (void*)p; }
#include "seq_atomics.h"
#include "stats.c"

#define BN 10
static struct { char pre[4]; char b[BN]; char post[4]; } U;        /* the caller's buffer */
static struct { char pre[4]; char b[2 * 2048 + 8]; char post[4]; } G;    /* a re-allocated buffer */
static int n_realloc;
void* stub_rezalloc(void* p, size_t newsize) {
  n_realloc++;
  if (nd_bool() || newsize > sizeof(G.b)) return NULL;
  CHECK(p == NULL || p == (void*)U.b || p == (void*)G.b, "re-allocates its own buffer");
  size_t old = (p == (void*)U.b ? BN : 0);
  for (size_t i = 0; i < sizeof(G.b); i++) G.b[i] = 0;
  if (p == (void*)U.b) for (size_t i = 0; i < BN; i++) G.b[i] = U.b[i];
  (void)old;
  return G.b;
}
void _mi_error_message(int err, const char* fmt, ...) { }
void _mi_warning_message(const char* fmt, ...) { }
void _mi_verbose_message(const char* fmt, ...) { }

#ifdef HARNESS_h_heap_buf
void h_heap_buf(void) {
  for (int i = 0; i < 4; i++) { U.pre[i] = 0x55; U.post[i] = 0x55; }
  for (int i = 0; i < BN; i++) U.b[i] = (char)nd_u8();
  mi_heap_buf_t h; h.buf = U.b;
  h.size = nd_range(0, BN); h.used = nd_size(); h.can_realloc = false;     /* caller-supplied buffer: mi_stats_get_json(n, buf) */
  ASSUME(h.size == 0 ? h.used == 0 : h.used < h.size);
  if (h.size > 0) ASSUME(U.b[h.used] == 0);
  char snap[BN]; for (int i = 0; i < BN; i++) snap[i] = U.b[i];
  char msg[7]; for (int i = 0; i < 6; i++) msg[i] = (char)nd_u8(); msg[6] = 0;
  size_t size0 = h.size, used0 = h.used;
  mi_heap_buf_print(&h, msg);
  for (int i = 0; i < 4; i++) CHECK(U.pre[i] == 0x55 && U.post[i] == 0x55, "no write outside the caller's buffer object");
  for (size_t i = 0; i < BN; i++) { if (i >= size0) CHECK(U.b[i] == snap[i], "no write at or beyond the given buffer size"); }
  CHECK(h.buf == U.b && h.size == size0 && n_realloc == 0, "a caller-supplied buffer is never re-allocated");
  if (size0 > 0) { CHECK(h.used < h.size, "used stays below size"); CHECK(U.b[h.used] == 0, "output is NUL terminated inside the buffer"); }
  CHECK(h.used >= used0, "output only grows");
  for (size_t i = 0; i < BN; i++) { if (i < used0) CHECK(U.b[i] == snap[i], "earlier output is preserved"); }
  WITNESS("end");
}
#endif
#ifdef VERIF_REPLAY
int main(void) { VERIF_ENTRY(); return 0; }
#endif
