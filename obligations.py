"""Obligation table: property -> list of solver obligations (see DESIGN.md 1.2).
Each obligation: id, harness (file under harness/), entry (function; also -DHARNESS_<entry>), flavour,
defines, unwind/unwindset, cbmc_flags, timeout (s), tier ('quick' obligations also run in thorough),
funcs (real functions encoded), bounds (text), cost (scheduling hint)."""

PROPS = {}


def O(id, harness, entry, tier="quick", **kw):
    d = dict(id=id, harness=harness, entry=entry, tier=tier)
    d.update(kw)
    return d


def obligations(pid, tier):
    obs = PROPS[pid]["obligations"]()
    if tier == "quick":
        return [o for o in obs if o["tier"] == "quick"]
    return [o for o in obs if o["tier"] in ("quick", "thorough")]


# ------------------------------------------------------------------------------------------------
# C16 size-class and address arithmetic
REAL_BINS_QUICK = [1, 2, 6, 9, 13, 22, 33, 40, 43, 48]     # 8,16,24,48,80(?)... indices into the real table
ALL_BINS = list(range(1, 49))   # bins that mi_bin can select (<= MI_MEDIUM_OBJ_SIZE_MAX = 64KiB); 49..72 of the table are unused


def c16():
    obs = [
        O("C16.bin", "c16_arith.c", "h_bin", funcs=["mi_bin", "_mi_bin", "_mi_bin_size", "_mi_wsize_from_size", "mi_clz"],
          bounds="all 64-bit sizes (precondition size <= SIZE_MAX-8), two symbolic sizes for monotonicity", timeout=600, cost=30),
        O("C16.bintable", "c16_arith.c", "h_bintable", funcs=["_mi_bin_size", "mi_bin", "mi_page_queue_is_huge", "mi_page_queue_is_full"],
          bounds="all 72 regular bins", cost=5),
        O("C16.good_size", "c16_arith.c", "h_good_size", funcs=["mi_good_size", "mi_page_queue", "_mi_bin", "_mi_align_up", "_mi_os_page_size"],
          bounds="all sizes 0..PTRDIFF_MAX", cost=20),
        O("C16.slice_bin", "c16_arith.c", "h_slice_bin", funcs=["mi_slice_bin8", "mi_slice_bin", "mi_bsr"],
          bounds="all slice counts 0..512 (two symbolic counts)", cost=5),
        O("C16.ptr_segment", "c16_arith.c", "h_ptr_segment", funcs=["_mi_ptr_segment"],
          bounds="all offsets 1..MI_SEGMENT_SIZE inside a segment object (base = CBMC object address)", cost=5),
        O("C16.page_of", "c16_arith.c", "h_page_of", funcs=["_mi_segment_page_of", "mi_slice_first", "mi_slice_to_page"],
          bounds="all span positions/lengths in a 512-slice segment, all interior byte offsets", cost=60, timeout=900),
        O("C16.helpers.pow2", "c16_arith.c", "h_helpers", defines=["HELPERS_MODE=1"], funcs=["_mi_align_up", "_mi_align_down", "_mi_divide_up", "_mi_is_power_of_two", "_mi_wsize_from_size", "_mi_clamp"],
          bounds="64-bit symbolic value, any power-of-two alignment", cost=30, timeout=900),
        O("C16.helpers.any", "c16_arith.c", "h_helpers", defines=["HELPERS_MODE=2", "HELPERS_BITS=12"], funcs=["_mi_align_up", "_mi_align_down", "_mi_divide_up", "_mi_is_power_of_two", "_mi_wsize_from_size", "_mi_clamp"],
          bounds="any alignment and value below 2^12 (symbolic divide/multiply paths)", cost=60, timeout=900, tier="thorough"),
        O("C16.bits", "c16_arith.c", "h_bits", funcs=["mi_clz", "mi_ctz", "mi_bsr", "mi_popcount", "_mi_popcount_generic"],
          bounds="all 64-bit values", unwind=66, cost=20),
        O("C16.unalign.sym", "c16_arith.c", "h_unalign", defines=["SYM_BS_MAX=512", "SYM_BOFF_MAX=65535"], funcs=["_mi_page_ptr_unalign"],
          bounds="symbolic block size (multiple of 8, <= 512), any page start, block offset < 64KiB, any interior offset", cost=120, timeout=900, tier="thorough"),
        O("C16.unalign.pow2", "c16_arith.c", "h_unalign_pow2", funcs=["_mi_page_ptr_unalign", "mi_ctz"],
          bounds="block size 2^k for k=3..40, block index 0/1, all interior offsets", cost=20, std_checks=False),
    ]
    obs.append(page_alloc_dispatch_ob("C16"))
    for b in ALL_BINS:
        t = "quick" if b in REAL_BINS_QUICK else "thorough"
        obs.append(O("C16.unalign.bin%02d" % b, "c16_arith.c", "h_unalign", tier=t, defines=["BIN=%d" % b],
                     funcs=["_mi_page_ptr_unalign"], bounds="real bin %d, all block offsets < 32MiB, all interior offsets" % b, cost=15))
        obs.append(O("C16.page_start.bin%02d" % b, "c16_arith.c", "h_page_start", tier=t, defines=["BIN=%d" % b],
                     funcs=["_mi_segment_page_start_from_slice", "_mi_align_up"],
                     bounds="real bin %d, all slice indices and counts of a 512-slice segment" % b, cost=30))
    return obs


PROPS["C16"] = dict(
    obligations=c16,
    bounds="full 64-bit symbolic sizes/addresses; page-start/unalign lemmas per real bin (driver enumerates the 72 bins, the solver covers all positions)",
    outside="segment base is CBMC's object address (0 mod 2^56): residues of page starts modulo the odd part of a block size are covered through the symbolic slice index instead of the base; mi_fast_divide is decided under C12",
    assumptions=["mi_os_mem_config.page_size keeps its static initial value 4096 in h_good_size",
                 "h_page_of: slice map entries as written by mi_segment_span_allocate (proved in C01 span lemmas)",
                 "h_unalign: block_size_shift computed as in mi_page_init"],
    trusted=["harness c16_arith.c oracles"],
)


# ------------------------------------------------------------------------------------------------
# API-logic lemmas (api_logic.c): C05 realloc family, C04 zero growth, C06 malformed requests, C03 aligned allocation
API_REPL = {"_mi_heap_malloc_zero_ex": "stub_malloc_zero_ex", "_mi_page_malloc": "stub_page_malloc",
            "_mi_page_malloc_zeroed": "stub_page_malloc_zeroed", "mi_free": "stub_free",
            "_mi_usable_size": "stub_usable_size", "_mi_ptr_page": "stub_ptr_page"}
API_STUBS = ["stub _mi_heap_malloc_zero_ex: NULL if size>MI_MAX_ALLOC_SIZE, NULL nondeterministically, else fresh 16-aligned dirty block of arbitrary usable size>=size (zeroed over its whole usable size when zero requested)",
             "stub mi_free/_mi_usable_size/_mi_ptr_page over a two-block mock heap (asserts pointer validity, single free, has_aligned for interior pointers)",
             "_mi_error_message/_mi_warning_message: recording/empty bodies"]
RE_FUNCS = ["_mi_heap_realloc_zero", "mi_heap_realloc", "mi_heap_reallocn", "mi_heap_reallocf", "mi_heap_rezalloc", "mi_heap_recalloc",
            "mi_realloc", "mi_rezalloc", "mi_reallocf", "mi_reallocn", "mi_recalloc", "mi_reallocarray", "mi_reallocarr", "mi_count_size_overflow", "_mi_memcpy", "_mi_memzero"]
REA_FUNCS = ["mi_heap_realloc_zero_aligned_at", "mi_heap_realloc_zero_aligned", "mi_heap_malloc_zero_aligned_at", "mi_heap_malloc_zero_aligned_at_generic",
             "mi_heap_malloc_zero_aligned_at_overalloc", "mi_malloc_is_naturally_aligned", "mi_good_size", "mi_realloc_aligned(_at)", "mi_rezalloc_aligned(_at)", "mi_recalloc_aligned(_at)"]
UNW_RE = 135
SMALLB = ["OLDCAP=32", "NEWCAP=64", "MAXNEW=24", "MAXALIGN=16", "MAXOFF=9"]


MULREPL = dict(API_REPL); MULREPL["mi_mul_overflow"] = "stub_mul_overflow"


def api_ob(id, entry, variant=None, defines=(), **kw):
    d = list(defines)
    if variant is not None:
        d.append("VARIANT=%d" % variant)
    kw.setdefault("unwind", UNW_RE)
    kw.setdefault("timeout", 900)
    kw.setdefault("native_replay", False)
    kw.setdefault("replace", API_REPL)
    return O(id, "api_logic.c", entry, defines=d, **kw)


def c05():
    names = ["realloc", "rezalloc", "reallocf", "reallocn", "recalloc", "reallocarray", "reallocarr"]
    anames = ["realloc_aligned", "rezalloc_aligned", "realloc_aligned_at", "rezalloc_aligned_at", "recalloc_aligned", "recalloc_aligned_at"]
    obs = []
    for v, n in enumerate(names):
        obs.append(api_ob("C05.%s" % n, "h_realloc", v, funcs=RE_FUNCS, cost=60,
                          bounds="old usable <= 64 bytes (interior pointers up to +56), new size <= 48, arbitrary contents, core may fail"))
    for v, n in enumerate(anames):
        obs.append(api_ob("C05.%s" % n, "h_realloc_aligned", v, funcs=REA_FUNCS, cost=90, defines=SMALLB,
                          bounds="old usable <= 32 (any byte offset of the pointer), new size <= 24, alignment <= 16, offset <= 9"))
        obs.append(api_ob("C05.%s.L" % n, "h_realloc_aligned", v, funcs=REA_FUNCS, cost=200, tier="thorough", timeout=2400,
                          bounds="old usable <= 48, new size <= 40, alignment <= 32, offset <= 24"))
    obs.append(api_ob("C05.expand", "h_expand", funcs=["mi_expand"], cost=5, bounds="usable <= 64, any new size"))
    obs.append(api_ob("C05._expand", "h_expand", 1, funcs=["mi__expand", "mi_expand"], cost=5, bounds="usable <= 64, any new size"))
    obs.append(api_ob("C05.expand.debug", "h_expand", flavour="debug", funcs=["mi_expand"], cost=5, bounds="padding build"))
    return obs


PROPS["C05"] = dict(
    obligations=c05,
    bounds="old block usable size <= 64 bytes incl. interior (over-aligned) pointers, new size <= 48 bytes, alignment <= 32, offset <= 40, all byte contents symbolic; loops unwound 170",
    outside="size classes/huge boundaries are abstracted by the stub (arbitrary usable size >= request); the real _mi_usable_size/mi_free on pages are decided under C01/C03; larger sizes",
    assumptions=API_STUBS,
    trusted=["api_logic.c mock heap and oracles"],
)


def c04():
    obs = page_obs("C04", [E_GENERIC], sizes=((32, 3),), flavours=("release",), replace=GENERIC_REPL)
    for v, n in [(1, "rezalloc"), (4, "recalloc")]:
        obs.append(api_ob("C04.grow.%s" % n, "h_realloc", v, defines=["ZERO_PREMISE"], funcs=RE_FUNCS, cost=60,
                          bounds="zero-initialised old block (bytes [requested,usable) zero), usable <= 64, new size <= 48"))
    for v, n in [(1, "rezalloc_aligned"), (3, "rezalloc_aligned_at"), (4, "recalloc_aligned"), (5, "recalloc_aligned_at")]:
        obs.append(api_ob("C04.grow.%s" % n, "h_realloc_aligned", v, defines=["ZERO_PREMISE"] + SMALLB, funcs=REA_FUNCS, cost=90,
                          bounds="zero-initialised old block, usable <= 32, new size <= 24, alignment <= 16, offset <= 9"))
        obs.append(api_ob("C04.grow.%s.L" % n, "h_realloc_aligned", v, defines=["ZERO_PREMISE"], funcs=REA_FUNCS, cost=300, tier="thorough", timeout=3000,
                          bounds="zero-initialised old block, usable <= 48, new size <= 40, alignment <= 32, offset <= 24"))
    obs.append(api_ob("C04.aligned_zero", "h_aligned_zero", funcs=REA_FUNCS + ["mi_zalloc_aligned(_at)", "mi_calloc_aligned_at", "mi_heap_zalloc_aligned_at"], cost=60,
                      bounds="size <= 40, alignment <= 64, offset <= 64"))
    return obs


PROPS["C04"] = dict(
    obligations=c04,
    bounds="blocks <= 64 bytes usable, new sizes <= 48, alignment <= 64; induction step of a growth chain: premise and conclusion 'bytes [requested, usable) are zero'",
    outside="shrink-then-grow chains (the property quantifies over monotone growth); the OS/arena zero promise; huge blocks (page lemma)",
    assumptions=API_STUBS + ["premise of the induction step: a block obtained from a zeroing entry point has bytes [requested, usable) zero (established by the page lemma: zeroing allocation zeroes the full block)"],
    trusted=["api_logic.c mock heap and oracles"],
)


def c06():
    obs = page_obs("C06", [E_GENERIC], sizes=((32, 3),), flavours=("release",), replace=GENERIC_REPL)
    names = ["calloc", "mallocn", "reallocn", "recalloc", "calloc_aligned", "calloc_aligned_at", "recalloc_aligned", "recalloc_aligned_at",
             "reallocarray", "reallocarr", "heap_calloc", "heap_mallocn", "heap_reallocn", "heap_recalloc", "heap_calloc_aligned",
             "heap_calloc_aligned_at", "heap_recalloc_aligned", "heap_recalloc_aligned_at"]
    for v, n in enumerate(names):
        obs.append(api_ob("C06.overflow.%s" % n, "h_overflow", v, funcs=["mi_count_size_overflow", "mi_" + n], cost=30, replace=MULREPL,
                          tier="quick" if v in (0, 2, 3, 5, 7, 8, 9, 13) else "thorough",
                          bounds="all 64-bit count/size pairs, all power-of-two alignments, all offsets; old block <= 64 bytes"))
    obs.append(O("C06.mul_overflow", "api_logic.c", "h_mul_overflow", tier="thorough", backend="cvc5int", timeout=1800,
                 funcs=["mi_mul_overflow", "mi_count_size_overflow"], bounds="all 64-bit pairs", cost=100))
    bnames = ["malloc_aligned", "malloc_aligned_at", "zalloc_aligned", "zalloc_aligned_at", "memalign", "aligned_alloc", "posix_memalign",
              "heap_malloc_aligned", "heap_zalloc_aligned_at", "realloc_aligned_at", "rezalloc_aligned", "pvalloc", "valloc", "new_aligned_nothrow"]
    for v, n in enumerate(bnames):
        obs.append(api_ob("C06.badalign.%s" % n, "h_badalign", v, funcs=["mi_" + n, "mi_heap_malloc_zero_aligned_at", "mi_heap_malloc_zero_aligned_at_generic"], cost=60,
                          tier="quick" if v in (0, 1, 4, 6, 9, 11) else "thorough",
                          bounds="all 64-bit size/alignment/offset triples"))
    return obs


PROPS["C06"] = dict(
    obligations=c06,
    bounds="full 64-bit symbolic count/size/alignment/offset; old block <= 64 bytes",
    outside="'a well-formed request fails only when the OS refuses' is the composition with C07 (stub core may refuse arbitrarily); mi_find_page's own maximum-size test is decided in the page lemmas",
    assumptions=API_STUBS,
    trusted=["api_logic.c mock heap and oracles", "128-bit reference product for overflow"],
)


# ------------------------------------------------------------------------------------------------
# OS layer (os_layer.c): C11 round trip, C07 refusals, C13 rounding, C18 purge option logic
OS_STUBS = ["_mi_prim_alloc: may refuse; else any fresh page-aligned address (disjoint from mapped ranges) recorded in a ghost interval map (<= 4 intervals)",
            "_mi_prim_free: asserts the range lies inside mapped memory (and whole-mapping only without partial free), updates the ghost map",
            "_mi_prim_commit/decommit/reset/protect: may refuse on every call; record the range",
            "mi_option_get/is_enabled: symbolic option values; statistics and messages: empty bodies",
            "mi_os_mem_config: has_partial_free/has_overcommit/virtual_address_bits symbolic, page size 4096"]


def os_ob(id, entry, variant=None, **kw):
    d = list(kw.pop("defines", []))
    if variant is not None:
        d.append("VARIANT=%d" % variant)
    kw.setdefault("std_checks", False)   # addresses are plain integers (never dereferenced): pointer instrumentation is meaningless here
    kw.setdefault("unwind", 6)
    kw.setdefault("timeout", 900)
    return O(id, "os_layer.c", entry, defines=d, **kw)


def os_roundtrip_obs(prefix):
    fn = ["_mi_os_alloc", "_mi_os_alloc_aligned", "_mi_os_alloc_aligned_at_offset", "mi_os_prim_alloc_aligned", "mi_os_prim_alloc_at",
          "_mi_os_free_ex", "_mi_os_free", "mi_os_prim_free", "_mi_os_good_alloc_size", "_mi_os_get_aligned_hint", "_mi_os_commit", "_mi_os_decommit"]
    return [os_ob(prefix + ".os_roundtrip.%s" % n, "h_os_roundtrip", v, funcs=fn, cost=60,
                  bounds="size 1..2^40, alignment any power of two <= 2^32, offset <= MI_SEGMENT_SIZE, every OS answer symbolic (refusal, address, zero)")
            for v, n in enumerate(["alloc", "alloc_aligned", "alloc_aligned_at_offset"])]


def td_obs(prefix):
    obs = []
    for slot in (0, 31):
        for e, ch in (("td_zalloc", 0), ("td_zalloc", 1), ("td_free", None), ("td_collect", None)):
            obs.append(O("%s.%s%s.slot%d" % (prefix, e, "" if ch is None else ".c%d" % ch, slot), "init_layer.c", "h_" + e, defines=["SLOT=%d" % slot] + ([] if ch is None else ["CACHEHAS=%d" % ch]), unwind=40, unwindset=["_mi_os_alloc.0:1200", "make_cache.0:1200", "h_td_zalloc.0:1200", "_mi_memzero_aligned.0:1200"],
                         std_checks=False, native_replay=False, cost=20, funcs=["mi_thread_data_zalloc", "mi_thread_data_free", "_mi_thread_data_collect"],
                         bounds="thread-metadata cache with a (dirty) block in slot %d or empty / completely full; OS may refuse" % slot))
    return obs


def thread_done_obs(prefix):
    return [O("%s.thread_heap_done.order%d" % (prefix, o), "init_layer.c", "h_thread_heap_done", defines=["ORDER=%d" % o, "MI_PRIM_THREAD_ID=verif_tid"], unwind=8, unwindset=["_mi_memcpy_aligned.0:4"],
              replace={"mi_thread_data_free": "stub_thread_data_free"}, std_checks=False, native_replay=False, cost=10,
              funcs=["_mi_thread_heap_done", "_mi_heap_set_default_direct"], bounds="thread with a backing heap and two further heaps, list order %d of 3; main or worker thread; default heap backing or not" % o) for o in (0, 1, 2)]


def c11():
    return os_roundtrip_obs("C11") + td_obs("C11") + [ar_ob("C11.abandon_os.len%d_t%d" % (ln, tg), "h_abandon_os", defines=["LISTLEN=%d" % ln, "TARGET=%d" % tg], replace=LOCK_REPL, cost=20,
                                            funcs=["mi_arena_segment_os_clear_abandoned", "mi_arena_segment_os_mark_abandoned"],
                                            bounds="abandoned OS segments stay reclaimable (so they can be freed): list of %d, entry %d" % (ln, tg)) for ln, tg in ((1, 0), (2, 1), (3, 1))] + [
        arena_free_ob("C11")] + [o for o in page_free_full_obs("C11") if o["id"].endswith(".last")] + [o for o in seg_reclaim_full_obs("C11") if o["id"].endswith("a0b0")] + [
        os_ob("C11.good_alloc_size", "h_good_alloc_size", funcs=["_mi_os_good_alloc_size"], bounds="all sizes <= PTRDIFF_MAX", cost=10)]


PROPS["C11"] = dict(
    obligations=c11,
    bounds="one OS allocation of 1..2^40 bytes, any power-of-two alignment <= 2^32, any offset <= 32MiB, followed by its free; ghost address space of <= 4 intervals",
    outside="RSS/footprint measurements and 'N repetitions' (inductive consequence of the round trip); Linux honouring munmap; segment/arena level release is decided under the segment lemmas",
    assumptions=OS_STUBS,
    trusted=["os_layer.c ghost address-space model"],
)


# ------------------------------------------------------------------------------------------------
# C14 bitmap rely/guarantee (bitmap_rg.c)
RG_ASSUME = ["interleavings are covered at the granularity of atomic operations under sequential consistency: before each atomic access all other threads may rewrite the accessed word except bits owned by this thread (rely = others never clear or overwrite bits they do not own)",
             "interference budget: at most IBUDGET (2) interfering changes per call (bounds CAS retries); weak-memory reorderings are outside the claim"]


def rg_ob(id, entry, nf=2, defines=(), **kw):
    kw.setdefault("unwind", nf + 4)      # CAS retry loops (interference budget 2), field loops, rollback recursion (3 retries)
    kw.setdefault("unwindset", ["_mi_bitmap_try_find_claim_field.0:68"])   # bit scan: 64 positions + CAS retries
    kw.setdefault("timeout", 1200)
    kw.setdefault("std_checks", True)
    return O(id, "bitmap_rg.c", entry, defines=["NF=%d" % nf] + list(defines), **kw)


def c14():
    fa = ["_mi_bitmap_try_find_from_claim_across", "mi_bitmap_try_find_claim_field_across", "_mi_bitmap_try_find_from_claim", "_mi_bitmap_try_find_claim_field", "mi_bitmap_mask_"]
    obs = [
        rg_ob("C14.try_claim", "h_try_claim", funcs=["_mi_bitmap_try_claim", "_mi_bitmap_unclaim"], cost=20, bounds="2 fields, any bit range inside a field"),
        rg_ob("C14.unclaim_across", "h_unclaim_across", funcs=["_mi_bitmap_unclaim_across", "mi_bitmap_mask_across"], cost=30, bounds="2 fields, any range"),
        rg_ob("C14.claim_across", "h_claim_across", funcs=["_mi_bitmap_claim_across", "_mi_bitmap_is_claimed_across"], cost=30, bounds="2 fields, any range (sequential)"),
    ]
    LOW0 = ["WIN0=0xFFFFFFFFFFFF0000ul", "WIN1=0xFFFFFFFFFFFFFFFFul"]      # free window: bits 0..15 of field 0
    HIGH1 = ["WIN0=0xFFFFFFFFFFFFFFFFul", "WIN1=0x0000FFFFFFFFFFFFul"]     # free window: bits 48..63 of field 1 (end of the bitmap)
    CROSS = ["WIN0=0x00FFFFFFFFFFFFFFul", "WIN1=0xFFFFFFFFFFFFFF00ul"]     # free window: top 8 bits of field 0 + low 8 bits of field 1
    # scan-loop bound: window positions + walk through the pinned region (shift <= count per step) + CAS retries
    for wn, w, cmin, cmax, scan in (("low0", LOW0, 8, 64, 28), ("high1", HIGH1, 1, 16, 22), ("cross", CROSS, 3, 64, 34)):
        st = 1 if wn == "high1" else 0
        us = ["_mi_bitmap_try_find_claim_field.0:%d" % scan]
        if wn != "cross":
            obs.append(rg_ob("C14.find_claim_field.%s" % wn, "h_find_claim_field", defines=w + ["START=%d" % st, "FCMIN=%d" % cmin, "FCMAX=%d" % cmax], std_checks=False, unwindset=us,
                             funcs=["_mi_bitmap_try_find_claim_field"], cost=100, bounds="16-bit symbolic window (%s), field %d, count %d..%d, <=2 interfering changes" % (wn, st, cmin, cmax)))
        for s0 in ((0, 1) if wn != "low0" else ()):   # (claims of > 2 blocks only ever use the top free bits of a field: nothing to claim in a low window)
            obs.append(rg_ob("C14.find_claim_across.%s.s%d" % (wn, s0), "h_find_claim_across", defines=w + ["START=%d" % s0, "CMIN=%d" % cmin, "CMAX=%d" % cmax] + (["EXPECT_CROSS"] if wn == "cross" else []),
                             std_checks=False, unwindset=us, funcs=fa, cost=200, bounds="2 fields, 16-bit symbolic window (%s), start field %d, count %d..%d, rollback retries" % (wn, s0, cmin, cmax)))
    for s0 in (0, 1):
        obs.append(rg_ob("C14.find_claim_across.big.s%d" % s0, "h_find_claim_across", defines=["START=%d" % s0, "CMIN=65", "CMAX=128", "EXPECT_CROSS"], std_checks=False,
                         replace={"_mi_bitmap_try_find_claim_field": "stub_unreachable_find_claim_field"},
                         funcs=fa, cost=200, bounds="2 fields fully symbolic, start field %d, count 65..128 (multi-field claims)" % s0))
    obs.append(rg_ob("C14.find_claim_across.nf3", "h_find_claim_across", nf=3, defines=["CMIN=65", "CMAX=192", "EXPECT_CROSS"], std_checks=False, funcs=fa, cost=600, tier="extended", timeout=3600,
                     replace={"_mi_bitmap_try_find_claim_field": "stub_unreachable_find_claim_field"}, bounds="3 fields fully symbolic, count 65..192"))
    return obs


PROPS["C14"] = dict(
    obligations=c14,
    bounds="bitmaps of 2 fields (128 arena blocks; 3 fields thorough); for claims of <= 64 blocks a 16-bit window of the bitmap is symbolic (low end, end of bitmap, across the field boundary) and the rest pinned in-use; multi-field claims (65..128 blocks) on fully symbolic contents; <= 2 interfering changes per call",
    outside="weak memory orders; composition 'disjoint bit ranges => disjoint address ranges' is mi_arena_block_start arithmetic (arena lemmas); more than 3 bitmap fields",
    assumptions=RG_ASSUME,
    trusted=["bitmap_rg.c rely/guarantee encoding (ghost ownership mask)"],
)


# ------------------------------------------------------------------------------------------------
# arena layer (arena_layer.c)
ARENA_STUBS = ["os.c boundary: _mi_os_commit_ex may refuse on every call; _mi_os_purge(_ex) records the blocks and asserts they hold no live data and are claimed by the purger; _mi_os_alloc*/free recording stubs",
               "clock: arbitrary non-decreasing milliseconds; options purge_delay in [-1,1000], arena_purge_mult in [1,20] and the others symbolic",
               "arena state: 1-2 arenas of NB=8 blocks in one bitmap field, symbolic in-use/dirty/committed/purge bits with invariant purge & inuse == 0, left-over bits blocked",
               "claim search _mi_bitmap_try_find_from_claim_across replaced by its contract (decided under C14 with rely/guarantee) where stated"]
FIND_REPL = {"_mi_bitmap_try_find_from_claim_across": "stub_find_from_claim_across"}


def ar_ob(id, entry, **kw):
    kw.setdefault("unwind", 10)
    kw.setdefault("timeout", 900)
    kw.setdefault("native_replay", False)
    kw.setdefault("std_checks", False)    # arena areas are plain addresses (never dereferenced)
    return O(id, "arena_layer.c", entry, **kw)


PURGE_UNW = ["mi_arena_try_purge.2:66", "mi_arena_try_purge.0:10", "mi_arena_try_purge.1:10", "mi_arena_try_purge.3:3",
             "mi_arena_purge_range.0:10", "mi_arena_purge_range.1:10"]     # NB=8 blocks: runs of at most 8 bits; 64 bit positions


PURGE_UNW70 = ["mi_arena_try_purge.2:70", "mi_arena_try_purge.0:70", "mi_arena_try_purge.1:70", "mi_arena_try_purge.3:3",
               "mi_arena_purge_range.0:70", "mi_arena_purge_range.1:70"]     # concrete purge words: the bit loops unwind concretely


def arena_expiry_ob(prefix):
    return [ar_ob(prefix + ".arenas_expiry.p%x_%x" % (p0, p1), "h_arenas_expiry", defines=["P0=0x%xul" % p0, "P1=0x%xul" % p1, "I0=0x%xul" % i0, "I1=0x%xul" % i1], unwind=4, unwindset=PURGE_UNW70, std_checks=False, cost=100,
                 funcs=EXP_FUNCS, bounds="2 arenas x 8 blocks, pending purge patterns %x/%x, concrete in-use patterns (committed, dirty, live bits symbolic), any expiries and clock, forced and non-forced collect" % (p0, p1))
            for (p0, p1, i0, i1) in ((0x16, 0x0, 0x81, 0xff), (0x0, 0x6, 0x0, 0x90), (0x16, 0x61, 0x0, 0x0), (0x80, 0x3, 0x7f, 0xfc))] + [
            ar_ob(prefix + ".arenas_expiry.three", "h_arenas_expiry", defines=["NARENA=3", "P0=0x6ul", "P1=0x18ul", "P2=0x81ul", "I0=0x1ul", "I1=0x0ul", "I2=0x10ul"], unwind=5, unwindset=PURGE_UNW70,
                  std_checks=False, cost=100, funcs=EXP_FUNCS, bounds="3 arenas x 8 blocks with pending purges (a non-forced pass purges at most 2 arenas: the rest must stay scheduled)")]


EXP_FUNCS = ["_mi_arenas_collect", "mi_arenas_try_purge", "mi_arena_try_purge", "mi_arena_purge_range", "mi_arena_purge", "_mi_bitmap_try_claim", "_mi_bitmap_unclaim", "_mi_bitmap_unclaim_across", "_mi_bitmap_is_claimed_across"]


def arena_expiry_ob_unused(prefix):
    return ar_ob(prefix + ".arenas_expiry", "h_arenas_expiry", unwind=4, unwindset=PURGE_UNW, std_checks=False, cost=200,
                 funcs=["_mi_arenas_collect", "mi_arenas_try_purge", "mi_arena_try_purge", "mi_arena_purge_range", "mi_arena_purge", "_mi_bitmap_try_claim", "_mi_bitmap_unclaim", "_mi_bitmap_unclaim_across", "_mi_bitmap_is_claimed_across"],
                 bounds="2 arenas x 8 blocks, any pending purge bits and expiries, any clock, forced and non-forced collect")


def arena_free_ob(prefix):
    return ar_ob(prefix + ".arena_free", "h_arena_free", unwind=4, std_checks=False, cost=200, replace={"mi_arenas_try_purge": "stub_arenas_try_purge"},
                 funcs=["_mi_arena_free", "mi_arena_schedule_purge", "mi_arena_purge", "mi_arenas_try_purge", "mi_arena_try_purge", "_mi_bitmap_unclaim_across", "_mi_bitmap_claim_across"],
                 bounds="1 arena x 8 blocks, any range, regular and double free, any commit state, all delays")


def arena_alloc_ob(prefix):
    return ar_ob(prefix + ".arena_alloc_at", "h_arena_alloc_at", replace=FIND_REPL, cost=60,
                 funcs=["mi_arena_try_alloc_at", "mi_arena_try_claim", "_mi_bitmap_unclaim_across", "_mi_bitmap_claim_across", "_mi_bitmap_is_claimed_across", "mi_arena_block_start", "mi_memid_create_arena"],
                 bounds="1 arena x 8 blocks, any count, commit refused or granted")


def c18():
    return arena_expiry_ob("C18") + purge_race_obs("C18") + seg_obs("C18", ["next_run"]) + seg_shape_obs("C18", ["try_purge", "seg_purge"]) + [arena_free_ob("C18"),
            os_ob("C18.os_purge", "h_purge", funcs=["_mi_os_purge_ex", "mi_os_decommit_ex", "_mi_os_reset", "_mi_os_commit_ex", "mi_os_page_align_areax"], cost=20,
                  bounds="any range, any delay value, decommit or reset mode")]


PROPS["C18"] = dict(
    obligations=c18,
    bounds="arenas of 8 blocks (one bitmap field), 2 arenas for the expiry logic, symbolic clock (non-decreasing), purge_delay in [-1,1000], arena_purge_mult in [1,20]",
    outside="segment-level (span) purge scheduling is decided under C13 segment lemmas when present; wall-clock behaviour of the real OS",
    assumptions=ARENA_STUBS + OS_STUBS,
    trusted=["arena_layer.c ghost bookkeeping (live / purged block masks)"],
)


RECLAIM_REPL = {"mi_segment_check_free": "stub_check_free", "mi_segment_reclaim": "stub_segment_reclaim", "mi_segment_try_purge": "stub_segment_try_purge"}
RECLAIM_STUBS = ["cursor over abandoned segments: returns up to 3 harness segments of the caller's sub-process; mi_segment_check_free / mi_segment_reclaim / mi_segment_try_purge / abandoned markers: recording stubs (reclaim asserts suitability, single adoption, same sub-process)",
                 "_mi_heap_memid_is_suitable: reference copy of the suitability test (the real one is decided by C15.suitable)"]


def reclaim_obs(prefix):
    return [sg_ob("%s.%s" % (prefix, n), "h_" + n, replace=RECLAIM_REPL, unwind=8, unwindset=[], std_checks=False, cost=30, funcs=f,
                  bounds="up to 3 abandoned segments with arbitrary memid (OS / arena 1-2, exclusive or not), used count, visit count; heap bound to arena 0/1/2; options symbolic")
            for n, f in (("try_reclaim", ["mi_segment_try_reclaim", "mi_segment_get_reclaim_tries", "segment_count_is_within_target"]),
                         ("reclaim_all", ["_mi_abandoned_reclaim_all"]),
                         ("abandoned_collect", ["_mi_abandoned_collect"]),
                         ("attempt_reclaim", ["_mi_segment_attempt_reclaim"]))]


def span_obs(prefix, which=("span_alloc", "span_free", "span_free_both")):
    tab = {"span_alloc": ["mi_segments_page_find_and_allocate", "mi_segment_span_allocate", "mi_segment_slice_split", "mi_segment_span_free", "mi_segment_span_free_coalesce", "mi_segment_ensure_committed", "mi_segment_commit", "mi_span_queue_push", "mi_span_queue_delete", "mi_span_queue_for", "mi_slice_bin"],
           "span_free": ["mi_segment_page_clear", "mi_segment_span_free_coalesce", "mi_segment_span_free", "mi_segment_span_remove_from_queue", "mi_slice_first"]}
    var = {"span_alloc": [("want%d" % n, "WANT=%d" % n) for n in (1, 2, 3, 4)], "span_free": [("left", "FREEA=1"), ("right", "FREEA=0")],
           "span_free_both": [("owned", "OWNED=1"), ("abandoned", "OWNED=0")]}
    tab["span_free_both"] = tab["span_free"]
    return [sg_ob("%s.%s.%s" % (prefix, w, nm), "h_" + w, defines=[d], unwind=40, unwindset=["stub_memzero_bytes.0:130"], std_checks=False, cost=60, cbmc_flags=["--max-field-sensitivity-array-size", "520"],
                  replace=dict({"_mi_ptr_segment": "stub_ptr_segment2"}, **({"_mi_memzero": "stub_memzero_bytes"} if w != "span_alloc" else {})), funcs=tab[w],
                  bounds="segment of 8 slices: info | used page (2) | free span (4) | used page (1); request of 1..4 slices; commit state, OS answers, page fields symbolic") for w in which for (nm, d) in var[w]]


SEG_UNWINDSET = ["mask_from.0:10", "_mi_commit_mask_next_run.0:66", "_mi_commit_mask_next_run.1:10", "_mi_commit_mask_next_run.2:66", "_mi_commit_mask_next_run.3:20",
                 "_mi_commit_mask_committed_size.0:66", "_mi_commit_mask_committed_size.1:10", "mi_commit_mask_create.0:10", "mi_segment_try_purge.0:12", "stub_memzero_bytes.0:130"]


def page_free_full_obs(prefix):
    return [sg_ob("%s.page_free_full.%s%s" % (prefix, "left" if fa else "right", (".last", ".owned", ".abandoned")[only]), "h_page_free_full", defines=["FREEA=%d" % fa, "ONLY=%d" % (only == 0), "ABND=%d" % (only == 2)],
                  unwind=40, unwindset=SEG_UNWINDSET, std_checks=False, cost=90, cbmc_flags=["--max-field-sensitivity-array-size", "520"],
                  replace={"_mi_ptr_segment": "stub_ptr_segment2", "_mi_memzero": "stub_memzero_bytes"},
                  funcs=["_mi_segment_page_free", "mi_segment_page_clear", "mi_segment_span_free_coalesce", "mi_segment_span_free", "mi_segment_schedule_purge", "mi_segment_try_purge", "mi_segment_purge",
                         "mi_segment_abandon", "mi_segment_free", "mi_segment_os_free", "mi_segment_span_remove_from_queue", "mi_segments_track_size"],
                  bounds="segment of 8 slices: info | page (2) | free span (4) | page (1); victim concrete; the other page owned, abandoned or already free; purge delay -1..100, clock, OS answers symbolic")
            for fa in (1, 0) for only in (0, 1, 2)]


def seg_reclaim_full_obs(prefix):
    return [sg_ob("%s.seg_reclaim_full.a%db%d" % (prefix, a, b), "h_seg_reclaim_full", defines=["AUSED=%d" % a, "BUSED=%d" % b],
                  unwind=40, unwindset=SEG_UNWINDSET, std_checks=False, cost=90, cbmc_flags=["--max-field-sensitivity-array-size", "520"],
                  replace={"_mi_ptr_segment": "stub_ptr_segment2", "_mi_memzero": "stub_memzero_bytes"},
                  funcs=["mi_segment_reclaim", "mi_segment_page_clear", "mi_segment_span_free_coalesce", "mi_segment_span_free", "mi_segment_free", "mi_segment_os_free", "mi_segments_track_size", "mi_slices_start_iterate"],
                  bounds="abandoned segment of 8 slices: info | page A (2) | free span (4) | page B (1); each page with live blocks or all free; purging disabled")
            for a in (0, 1) for b in (0, 1)]


def check_free_obs(prefix):
    return [sg_ob("%s.check_free.a%db%d.need%d" % (prefix, a, b, need), "h_check_free", defines=["AUSED=%d" % a, "BUSED=%d" % b, "NEED=%d" % need],
                  unwind=40, unwindset=SEG_UNWINDSET, std_checks=False, cost=40, cbmc_flags=["--max-field-sensitivity-array-size", "520"],
                  replace={"_mi_ptr_segment": "stub_ptr_segment2", "_mi_memzero": "stub_memzero_bytes"},
                  funcs=["mi_segment_check_free", "mi_segment_page_clear", "mi_segment_span_free_coalesce", "mi_slices_start_iterate", "mi_page_has_any_available"],
                  bounds="abandoned 8-slice layout; page states A=%d B=%d (0 all free, 1 live with a free block, 2 live and full); %d slices needed; any block size" % (a, b, need))
            for (a, b, need) in ((1, 2, 5), (0, 1, 5), (2, 0, 5), (0, 0, 7), (1, 1, 1), (2, 2, 5))]


def segment_reclaim_ob(prefix):
    return sg_ob(prefix + ".segment_reclaim", "h_segment_reclaim", unwind=8, unwindset=[], std_checks=False, cost=20, cbmc_flags=["--max-field-sensitivity-array-size", "520"],
                 replace={"mi_segment_page_clear": "stub_page_clear", "mi_segment_span_free_coalesce": "stub_span_free_coalesce", "mi_segment_free": "stub_segment_free"},
                 funcs=["mi_segment_reclaim", "mi_slices_start_iterate", "mi_page_set_heap", "mi_slice_is_used", "mi_page_all_free"],
                 bounds="segment of 4 slices: info slice + page of 1 slice + page of 2 slices, each used or free, used counts 0..4")


def c15():
    return reclaim_obs("C15") + [o for o in heap_destroy_obs("C15") if o["id"].endswith(".heap_delete")] + [ar_ob("C15.suitable", "h_suitable", funcs=["mi_arena_id_is_suitable", "_mi_arena_memid_is_suitable"], cost=5, bounds="all id/request/exclusive combinations"),
            ] + [ar_ob("C15.arena_specific.req%d" % r, "h_arena_specific", defines=["REQ=%d" % r], replace={"mi_arena_try_alloc_at": "stub_try_alloc_at"}, cost=100,
                  funcs=["_mi_arena_alloc_aligned", "mi_arena_try_alloc", "mi_arena_try_alloc_at_id", "mi_arena_try_alloc_at", "mi_arena_id_is_suitable", "mi_arena_reserve"],
                  bounds="2 arenas x 8 blocks (each exclusive or not), request id %d (0 = none, 3 = unknown), any size up to the arena, any alignment" % r) for r in (0, 1, 2, 3)] + [
            ar_ob("C15.manage", "h_manage", replace={"_mi_arena_meta_zalloc": "stub_meta_zalloc"}, unwind=600, cost=60,
                  funcs=["mi_manage_os_memory_ex", "mi_manage_os_memory_ex2", "mi_arena_add", "_mi_bitmap_claim"],
                  bounds="any start offset inside a segment, any size up to 6 arena blocks")]


PROPS["C15"] = dict(
    obligations=c15,
    bounds="2 arenas of 8 blocks; managed regions up to 6 blocks at any misalignment",
    outside="span reuse and reclaim suitability tests in segment.c (segment lemmas); heap binding mi_heap_new_in_arena -> request id is read off the code (heap->arena_id passed through)",
    assumptions=ARENA_STUBS,
    trusted=["arena_layer.c"],
)


# ------------------------------------------------------------------------------------------------
# page layer (page_layer.c): C01 page steps, C03 interior pointers, C04 zeroing pop, C12 walk, C17 hardened builds
PAGE_REPL = {"_mi_ptr_segment": "stub_ptr_segment", "_mi_segment_page_of": "stub_segment_page_of", "_mi_segment_page_start": "stub_segment_page_start",
             "_mi_page_retire": "stub_page_retire", "_mi_page_unfull": "stub_page_unfull", "_mi_malloc_generic": "stub_malloc_generic",
             "mi_free_block_mt": "stub_free_block_mt"}
PAGE_STUBS = ["pointer lookup _mi_ptr_segment/_mi_segment_page_of/_mi_segment_page_start replaced by stubs returning the harness segment/page/area (their arithmetic is C16)",
              "_mi_page_retire/_mi_page_unfull/_mi_malloc_generic: recording stubs (queue and generic-path lemmas are separate)",
              "Inv_page: blocks at concrete positions (BS, NBLK from the driver); per block live/free/local/thread-free, list order ascending or descending by index, arbitrary bytes, flags, keys; used = live + thread-free; free_is_zero => free blocks zero past the link",
              "atomics are sequential in these step lemmas (concurrency is decided by the rely/guarantee harnesses)", "options symbolic; error handler records codes"]


def pg_ob(id, entry, bs=32, nblk=5, flavour="release", **kw):
    kw.setdefault("unwind", nblk + 3)
    kw.setdefault("timeout", 900)
    kw.setdefault("native_replay", False)
    kw.setdefault("replace", PAGE_REPL)
    d = list(kw.pop("defines", [])) + ["BS=%d" % bs, "NBLK=%d" % nblk, "MI_PRIM_THREAD_ID=verif_tid"]
    if flavour != "release" and not any(x.startswith("KEY0") for x in d):
        d += ["KEY0=0x9E3779B97F4A7C15ul", "KEY1=0xD1B54A32D192ED03ul"]
    us = list(kw.pop("unwindset", []))
    big = (nblk + 1) * bs // 8 + 2 if True else 0
    bigb = bs + 2
    # byte loops of the harness (area fill / snapshot / compare / zero checks) get the area size; every other loop
    # (list walks, collect, extend, visit) gets a bound derived from the number of blocks
    for lp in ("fill_area.0", "assume_zero_tail.0", "snapshot.0", "check_block_same.0"):
        us.append("%s:%d" % (lp, big))
    us.append("check_zero.0:%d" % bigb)
    for lp in ("pad_live.0", "mi_check_padding.0", "mi_verify_padding.0", "_mi_page_malloc_zero.0"):
        us.append("%s:%d" % (lp, 20))            # at most MI_MAX_ALIGN_SIZE (16) padding bytes
    us.append("_mi_heap_area_visit_blocks.0:20")      # free-map words (MI_MAX_BLOCKS / bits)
    return O(id, "page_layer.c", entry, defines=d, flavour=flavour, unwindset=us, **kw)


def page_obs(prefix, entries, sizes=((32, 5),), flavours=("release",), tier="quick", **kw):
    obs = []
    for e, funcs in entries:
        for (bs, nb) in sizes:
            for fl in flavours:
                obs.append(pg_ob("%s.%s.bs%d.%s" % (prefix, e[2:], bs, fl), e, bs=bs, nblk=nb, flavour=fl, funcs=funcs, tier=tier, cost=60,
                                 bounds="block size %d, %d blocks, %s build" % (bs, nb, fl), **kw))
    return obs


E_MALLOC = ("h_malloc", ["_mi_page_malloc_zero", "mi_block_next", "_mi_memzero_aligned"])
E_FREE = ("h_free_local", ["mi_free", "mi_checked_ptr_segment", "mi_free_block_local", "mi_free_generic_local", "_mi_page_ptr_unalign", "mi_check_is_double_free", "mi_check_padding", "mi_block_set_next"])
E_USABLE = ("h_usable", ["mi_usable_size", "_mi_usable_size", "mi_page_usable_aligned_size_of", "mi_page_usable_size_of", "_mi_page_ptr_unalign"])
E_COLLECT = ("h_collect", ["_mi_page_free_collect", "_mi_page_thread_free_collect", "mi_block_next"])
E_EXTEND = ("h_extend", ["mi_page_extend_free", "mi_page_free_list_extend", "mi_page_block_at"])
E_GENERIC = ("h_generic", ["_mi_malloc_generic", "_mi_page_malloc", "_mi_page_malloc_zero", "_mi_memzero_aligned"])
GENERIC_REPL = {"_mi_ptr_segment": "stub_ptr_segment", "_mi_segment_page_of": "stub_segment_page_of", "_mi_segment_page_start": "stub_segment_page_start",
                "mi_find_page": "stub_find_page", "mi_heap_collect": "stub_heap_collect", "_mi_deferred_free": "stub_deferred_free",
                "_mi_heap_delayed_free_partial": "stub_delayed_free_partial2", "mi_page_to_full": "stub_page_to_full", "mi_page_queue_of": "stub_page_queue_of"}
E_VISIT = ("h_visit", ["_mi_heap_area_visit_blocks", "_mi_heap_area_init", "mi_get_fast_divisor", "mi_fast_divide", "_mi_page_free_collect"])


def c01():
    obs = page_obs("C01", [E_MALLOC, E_FREE, E_COLLECT, E_EXTEND], sizes=((32, 5),), flavours=("release",))
    obs += page_obs("C01", [E_MALLOC, E_FREE], sizes=((48, 4),), flavours=("release",))
    obs += page_obs("C01", [E_COLLECT, E_EXTEND], sizes=((48, 4),), flavours=("release",), tier="thorough", timeout=1800)
    obs += page_obs("C01", [E_MALLOC], sizes=((32, 3),), flavours=("secure",), tier="thorough", timeout=1800)   # (quick tier: the same obligation runs under C17)
    obs += page_obs("C01", [E_FREE, E_COLLECT], sizes=((32, 3),), flavours=("secure",), tier="extended", timeout=3600, std_checks=False)
    # "extended" obligations are kept for reference but belong to no registered command: they did not finish (time-out or
    # out of memory under the 14 GB limit) when tried: debug-flavour page steps, 1024-byte blocks, secure free/collect/extend
    obs += page_obs("C01", [E_MALLOC, E_FREE, E_COLLECT], sizes=((48, 3),), flavours=("debug",), tier="extended", timeout=3000)
    obs += page_obs("C01", [E_MALLOC, E_FREE, E_COLLECT, E_EXTEND], sizes=((16, 6), (80, 4)), flavours=("release",), tier="thorough", timeout=2400)
    obs += page_obs("C01", [E_MALLOC], sizes=((16, 6),), flavours=("secure",), tier="thorough", timeout=2400)
    obs += page_obs("C01", [E_MALLOC, E_FREE, E_COLLECT, E_EXTEND], sizes=((1024, 3),), flavours=("release", "secure"), tier="extended")
    obs += page_obs("C01", [E_FREE, E_COLLECT, E_EXTEND], sizes=((16, 6), (80, 4)), flavours=("secure",), tier="extended")
    obs += queue_obs("C01")
    obs += span_obs("C01") + page_free_full_obs("C01") + find_free_obs("C01") + [page_alloc_dispatch_ob("C01")]
    obs += segment_alloc_full_obs("C01", flavours=("release",)) + segment_alloc_full_obs("C01", flavours=("secure",), tier="thorough")
    for b in (1, 2, 13, 33, 48):
        obs.append(O("C01.page_start.bin%02d" % b, "c16_arith.c", "h_page_start", defines=["BIN=%d" % b], funcs=["_mi_segment_page_start_from_slice"], cost=30,
                     bounds="real bin %d: the page area (start, size) lies exactly inside its span for every slice index" % b))
    return obs


PROPS["C01"] = dict(
    obligations=c01,
    bounds="one page of 3-6 blocks at block sizes 16/32/48/80/1024; every combination of live/free/local-free blocks, list order ascending or descending, arbitrary contents and flags; one allocator step from that state (induction step of the history); one span-level step (allocate/split, free/coalesce, page free, abandon, reclaim, segment allocation) from concrete slice layouts with symbolic contents",
    outside="composition over histories and across pages/segments (disjoint arena blocks: C14); span-level disjointness is decided on driver-enumerated concrete slice layouts only (8-slice segment, fresh normal/huge segments for 6 request sizes), not for arbitrary slice maps; arbitrary list permutations; page-queue search (mi_find_page)",
    assumptions=PAGE_STUBS,
    trusted=["page_layer.c Inv_page builder and list walker"],
)


def c17():
    E_DF = ("h_double_free", ["mi_free", "mi_check_is_double_free", "mi_check_is_double_freex", "mi_list_contains", "mi_is_in_same_page", "mi_block_nextx"])
    E_OV = ("h_overflow_detect", ["mi_free", "mi_check_padding", "mi_verify_padding", "mi_page_decode_padding", "mi_ptr_encode_canary"])
    E_CL = ("h_corrupt_link", ["_mi_page_malloc_zero", "mi_block_next", "mi_ptr_decode", "mi_is_in_same_page"])
    HARD = dict(std_checks=False)   # hardened code compares pointers decoded from program data / forged links: pointer-validity instrumentation on those comparisons is not meaningful
    obs = page_obs("C17", [E_CL], sizes=((32, 4),), flavours=("secure", "debug"), **HARD)
    obs += page_obs("C17", [E_MALLOC], sizes=((32, 3),), flavours=("secure",))
    obs += page_obs("C17", [E_DF], sizes=((32, 2),), flavours=("secure",), timeout=900, **HARD)
    obs += page_obs("C17", [E_OV], sizes=((32, 2),), flavours=("debug",), timeout=1200, defines=["TAMPER=0"], **HARD)
    obs += [dict(o, id=o["id"] + ".canary") for o in page_obs("C17", [E_OV], sizes=((32, 2),), flavours=("debug",), timeout=1200, defines=["TAMPER=1"], **HARD)]
    obs += page_obs("C17", [E_OV_MT], sizes=((32, 2),), flavours=("debug",), timeout=900, replace=MT_REPL, **HARD)
    obs += page_obs("C17", [E_DF], sizes=((32, 3),), flavours=("secure", "debug"), tier="thorough", timeout=3000, **HARD)
    obs += page_obs("C17", [E_OV], sizes=((32, 3),), flavours=("debug",), tier="thorough", timeout=3000, defines=["TAMPER=0"], **HARD)
    obs += page_obs("C17", [E_FREE], sizes=((32, 3),), flavours=("secure",), tier="thorough", timeout=3600, **HARD)
    obs += page_obs("C17", [E_DF, E_CL], sizes=((64, 3),), flavours=("debug",), tier="thorough", timeout=3600, **HARD)
    obs += page_obs("C17", [E_OV], sizes=((64, 3),), flavours=("debug",), tier="thorough", timeout=3600, defines=["TAMPER=0"], **HARD)
    return obs


PROPS["C17"] = dict(
    obligations=c17,
    bounds="pages of 3-4 blocks (32/48/64 bytes) in the secure (MI_SECURE=4) and debug (MI_DEBUG=2) builds; arbitrary keys, list states, forged link values (full 64 bit), overflow byte position/value",
    outside="a second free after the whole area was released; internal assertions of debug builds after a detected error; thread-free list cycles (bounded walk) are in the thorough tier",
    assumptions=PAGE_STUBS,
    trusted=["page_layer.c"],
)


def purge_race_obs(prefix):
    obs = []
    scheds = [(1, 1, 1), (1, 2, 99), (1, 4, 4), (1, 99, 99), (2, 3, 5), (3, 3, 99), (3, 6, 99), (3, 99, 99), (5, 5, 5), (5, 8, 99), (99, 99, 99)]
    for (p0, i0, sb) in ((0x03, 0x10, 6), (0x0c, 0x01, 1)):
        for (pa, pb, pc) in scheds:
            if p0 == 0x03 and (pa, pb, pc) in ((1, 2, 99), (3, 3, 99)): continue       # no verdict within the budget (the freed block lies apart from the pending run: longer claim retries)
            obs.append(ar_ob(prefix + ".purge_race.p%x_b%d.s%d_%d_%d" % (p0, sb, pa, pb, pc), "h_purge_race",
                             defines=["NARENA=1", "P0=%sul" % hex(p0), "P1=0ul", "I0=%sul" % hex(i0), "I1=0ul", "SCHEDBIT=%d" % sb, "POSA=%d" % pa, "POSB=%d" % pb, "POSC=%d" % pc], cost=5, unwind=10,
                             unwindset=PURGE_UNW70 + ["h_purge_race.0:4"],
                             funcs=["mi_arena_try_purge", "mi_arena_purge_range", "mi_arena_purge", "mi_arena_schedule_purge (as interference)"],
                             bounds="one arena of 8 blocks, pending purge word %s, in-use word %s, block %d freed concurrently: its timer / purge-bit / in-use-release steps happen before atomic operation %d / %d / %d of the purging thread (99 = after it returned)" % (hex(p0), hex(i0), sb, pa, pb, pc)))
    return obs


def cursor_fields_obs(prefix):
    return [ar_ob(prefix + ".cursor_fields.%d" % i, "h_cursor_fields", defines=["F0BITS=%sul" % hex(f0), "F1BITS=%sul" % hex(f1)], cost=10, unwind=8,
                  unwindset=["mi_arena_segment_clear_abandoned_next_field.0:70", "mi_arena_segment_clear_abandoned_next_field.1:4", "mi_arena_segment_clear_abandoned_next_field.2:3"],
                  replace=dict(LOCK_REPL, **{"mi_arena_segment_clear_abandoned_at": "stub_clear_abandoned_at"}),
                  funcs=["_mi_arena_field_cursor_init", "_mi_arena_segment_clear_abandoned_next", "mi_arena_segment_clear_abandoned_next_field", "_mi_arena_field_cursor_done"],
                  bounds="one arena of 128 blocks (2 bitmap fields), abandoned words %s / %s; <= 5 segments" % (hex(f0), hex(f1)))
            for i, (f0, f1) in enumerate(((1 << 5, 1 << 3), (1 << 63, 1), (0, 1 << 7), ((1 << 2) | (1 << 40), (1 << 1) | (1 << 63)), (1 << 9, 0)))]


def abandoned_visit_ob(prefix):
    return ar_ob(prefix + ".abandoned_visit", "h_abandoned_visit", cost=10, unwind=8,
                 replace={"_mi_arena_field_cursor_init": "stub_cursor_init", "_mi_arena_field_cursor_done": "stub_cursor_done",
                          "_mi_arena_segment_clear_abandoned_next": "stub_clear_abandoned_next", "_mi_arena_segment_mark_abandoned": "stub_mark_abandoned"},
                 funcs=["mi_abandoned_visit_blocks"], bounds="0-3 abandoned segments, visitor stopping after 0-3 segments, option on/off")


def c12():
    obs = page_obs("C12", [E_VISIT], sizes=((32, 5),), flavours=("release",))
    obs += page_obs("C12", [E_VISIT], sizes=((48, 4),), flavours=("release",), tier="thorough", timeout=1800)
    obs += page_obs("C12", [E_VISIT], sizes=((48, 3),), flavours=("debug",), tier="extended", timeout=3000)
    obs.append(abandoned_visit_ob("C12"))
    obs += visit_areas_obs("C12") + queue_obs("C12", which=("absorb",))[1:3] + cursor_fields_obs("C12")
    for b in (1, 2, 6, 9, 13, 22, 33, 40, 43, 48):
        obs.append(O("C12.fast_divide.bin%02d" % b, "c16_arith.c", "h_fast_divide", defines=["BIN=%d" % b], funcs=["mi_get_fast_divisor", "mi_fast_divide"], cost=30,
                     bounds="real bin %d, all block offsets inside a page of up to 2^16 blocks" % b, timeout=600))
    for b in range(1, 49):
        if b not in (1, 2, 6, 9, 13, 22, 33, 40, 43, 48):
            obs.append(O("C12.fast_divide.bin%02d" % b, "c16_arith.c", "h_fast_divide", tier="thorough", defines=["BIN=%d" % b], funcs=["mi_get_fast_divisor", "mi_fast_divide"], cost=30,
                         bounds="real bin %d" % b, timeout=900))
    return obs


PROPS["C12"] = dict(
    obligations=c12,
    bounds="one page of 4-5 blocks with arbitrary live/free/local-free/thread-free pattern and capacity; visitor stopping after 0-3 calls; fast division exact for every real block size (per size, all offsets up to 2^16 blocks)",
    outside="pages with more than 64 blocks (free-map word boundary), iteration over page queues and abandoned segments (heap/segment lemmas)",
    assumptions=PAGE_STUBS,
    trusted=["page_layer.c visitor bookkeeping"],
)


# ------------------------------------------------------------------------------------------------
# C20 (libc_opts.c)
def lo_ob(id, entry, **kw):
    if entry == "h_vsnprintf":
        kw.setdefault("ub_notes", True)     # mi_out_alignright forms `start+len+extra` beyond the buffer before comparing it with `end` (never accessed)
    kw.setdefault("unwind", 20)
    kw.setdefault("timeout", 1200)
    return O(id, "libc_opts.c", entry, **kw)


MSG_REPL = {"_mi_warning_message": "stub_message", "_mi_verbose_message": "stub_message", "_mi_message": "stub_message", "_mi_trace_message": "stub_message"}
ENV_LOOPS = ["mi_option_is_word_of.0:6", "mi_option_is_word_of.1:8", "_mi_strnicmp.0:8", "_mi_strlen.0:70", "_mi_strlcpy.0:66", "_mi_strlcat.0:66", "mi_option_init.0:66", "_mi_strnlen.0:66", "ref_strstr.0:16", "ref_strstr.1:16"]
VSN_FUNCS = ["_mi_vsnprintf", "_mi_snprintf", "mi_out_num", "mi_outc", "mi_outs", "mi_out_fill", "mi_out_alignright"]


def VSN_LOOPS(buf, digits, width):
    return ["h_vsnprintf.%d:%d" % (i, 14) for i in range(8)] + ["h_vsnprintf.1:1200", "check_guard.0:1200"] + ["mi_outs.0:%d" % buf, "mi_out_fill.0:%d" % buf, "mi_out_alignright.0:%d" % buf,
            "mi_out_alignright.1:%d" % buf, "mi_out_num.0:%d" % digits, "mi_out_num.1:%d" % (digits // 2 + 2)]


def c20():
    obs = [
        lo_ob("C20.strl", "h_strl", funcs=["_mi_strlcpy", "_mi_strlcat", "_mi_strnlen", "_mi_strlen", "_mi_strnicmp", "_mi_toupper"], cost=30,
              bounds="destination of 8 bytes, every dest_size 0..8, sources up to 11 characters"),
        lo_ob("C20.vsnprintf.num2", "h_vsnprintf", defines=["FMTLEN=2"], unwind=4, unwindset=VSN_LOOPS(13, 22, 12), cost=120,
              funcs=VSN_FUNCS, bounds="every 2-byte format without %s, three arbitrary 64-bit arguments, buffer sizes 0..12"),
        lo_ob("C20.vsnprintf.num3", "h_vsnprintf", defines=["FMTLEN=3", "ARGMAX=65535"], unwind=5, unwindset=VSN_LOOPS(13, 7, 12), cost=200,
              funcs=VSN_FUNCS, bounds="every 3-byte format without %s, arguments <= 65535, buffer sizes 0..12"),
        lo_ob("C20.vsnprintf.str3", "h_vsnprintf", defines=["FMTLEN=3", "WITH_STRINGS"], unwind=5, unwindset=VSN_LOOPS(13, 22, 12), cost=200,
              funcs=VSN_FUNCS, bounds="every 3-byte format, arguments are valid strings of <= 4 characters, buffer sizes 0..12"),
        lo_ob("C20.vsnprintf.num4", "h_vsnprintf", defines=["FMTLEN=4", "POSTN=1100"], unwind=6, unwindset=VSN_LOOPS(13, 22, 12), cost=600, tier="extended", timeout=3600,
              funcs=VSN_FUNCS, bounds="every 4-byte format without %s, arbitrary 64-bit arguments, buffer sizes 0..12"),
        lo_ob("C20.option_setget", "h_option_setget", unwind=4, unwindset=["h_option_setget.0:50", "h_option_setget.1:50"], replace=MSG_REPL,
              funcs=["mi_option_set", "mi_option_get", "mi_option_get_clamp", "mi_option_is_enabled"], cost=20, bounds="every option index incl. out of range, every value"),
        lo_ob("C20.out_buf", "h_out_buf", defines=["MI_MAX_DELAY_OUTPUT=64"], unwind=12, funcs=["mi_out_buf", "_mi_strlen", "_mi_memcpy"], cost=30,
              bounds="delayed-output buffer compiled at 64 bytes (MI_MAX_DELAY_OUTPUT is an #ifndef knob), any fill level, messages up to 8 characters"),
    ]
    obs.append(O("C20.heap_buf", "stats_buf.c", "h_heap_buf", unwind=14, replace={"mi_rezalloc": "stub_rezalloc"}, cost=30, funcs=["mi_heap_buf_print", "mi_heap_buf_expand"],
                 bounds="caller buffer of every size 0..10 at every fill level, messages up to 6 characters"))
    for name in ("mi_option_purge_delay", "mi_option_arena_reserve", "mi_option_verbose", "mi_option_show_errors"):
        obs.append(lo_ob("C20.option_env.%s" % name[10:], "h_option_env", defines=["OPT=%s" % name, "ENVLEN=6"], unwind=8, unwindset=ENV_LOOPS, replace=MSG_REPL, cost=200,
                         funcs=["mi_option_init", "mi_option_get", "mi_option_set", "mi_option_get_size", "_mi_getenv", "_mi_strlcpy", "_mi_strlcat", "_mi_strnlen", "_mi_toupper", "mi_mul_overflow"],
                         bounds="environment strings of up to 6 arbitrary characters for option %s" % name[10:]))
    obs.append(lo_ob("C20.option_env.arena_reserve.L", "h_option_env", defines=["OPT=mi_option_arena_reserve", "ENVLEN=22"], unwind=24, unwindset=ENV_LOOPS, replace=MSG_REPL, cost=600, tier="extended", timeout=3600,
                     funcs=["mi_option_init", "mi_option_get_size"], bounds="environment strings of up to 22 characters (decimal overflow range) for arena_reserve"))
    return obs


PROPS["C20"] = dict(
    obligations=c20,
    bounds="format strings of 3 (5 thorough) arbitrary bytes, buffer sizes 0..12; environment values of up to 6 (22 thorough) arbitrary characters; all option indices",
    outside="mi_stats_get_json / mi_stats_print end to end (hundreds of snprintf calls; their primitives are covered); environment strings longer than the bound (the 64-byte getenv buffer contract is asserted)",
    assumptions=["_mi_prim_getenv returns an arbitrary NUL-terminated string within the bound (or nothing)", "strtol/strstr: reference implementations inside the harness",
                 "output sinks are empty stubs"],
    trusted=["libc_opts.c reference grammar evaluator"],
)


# ------------------------------------------------------------------------------------------------
# C19 override (api_logic.c compiled with -DMI_MALLOC_OVERRIDE)
def c19():
    obs = []
    for g, name in enumerate(["alloc", "release", "query_resize", "aligned"]):
        obs.append(api_ob("C19.override.%s" % name, "h_override", defines=["MI_MALLOC_OVERRIDE=1", "GROUP=%d" % g] + SMALLB, cost=100,
                          funcs=["malloc", "calloc", "realloc", "free", "cfree", "vfree", "reallocf", "reallocarray", "reallocarr", "malloc_usable_size", "malloc_size", "malloc_good_size",
                                 "posix_memalign", "aligned_alloc", "memalign", "_aligned_malloc", "__libc_*", "__posix_memalign", "_Znwm/_Znam (+nothrow, +align_val_t)", "_ZdlPv/_ZdaPv (+sized, +aligned, +nothrow)",
                                 "mi_new", "mi_new_nothrow", "mi_new_aligned", "mi_new_aligned_nothrow", "mi_heap_try_new", "mi_try_new_handler"],
                          bounds="every override entry point of the Linux/glibc C build in family '%s', sizes <= 40, alignments 8..32, core may refuse" % name))
    return obs


PROPS["C19"] = dict(
    obligations=c19,
    bounds="the override translation unit as the C build compiles it (alloc.c + alloc-override.c with MI_MALLOC_OVERRIDE on Linux/glibc): every entry point called with symbolic arguments against the mock core",
    outside="the dynamic loader's symbol interposition and whole programs under LD_PRELOAD; the C++ build of the library (operator new as C++ functions, exceptions); strdup/strndup/realpath contents; valloc/pvalloc page alignment (mock blocks are small)",
    assumptions=API_STUBS + ["abort(): asserted to be reachable only from the throwing operator new forms"],
    trusted=["api_logic.c mock heap"],
)


# ------------------------------------------------------------------------------------------------
# C03 size/alignment contract: aligned allocation logic (api_logic.c), interior pointers on pages (page_layer.c), natural alignment
def c03():
    obs = [
        api_ob("C03.aligned", "h_aligned", funcs=REA_FUNCS, cost=200, std_checks=False, unwind=135,
               bounds="every size <= 8MiB, every power-of-two alignment <= 2^40, every offset; small-page free block absent/aligned/misaligned; blocks are address ranges only"),
        api_ob("C03.natural", "h_natural", funcs=["mi_malloc_is_naturally_aligned", "mi_good_size", "mi_bin", "_mi_bin_size"], cost=30, unwind=4,
               bounds="every size and power-of-two alignment"),
        api_ob("C03.realloc_aligned_at", "h_realloc_aligned", 2, funcs=REA_FUNCS, cost=90, defines=SMALLB,
               bounds="as C05.realloc_aligned_at (re-allocation keeps the alignment)"),
        api_ob("C03.realloc_aligned", "h_realloc_aligned", 0, funcs=REA_FUNCS, cost=90, defines=SMALLB,
               bounds="as C05.realloc_aligned (re-allocation without explicit offset keeps the alignment)"),
        api_ob("C03.recalloc_aligned", "h_realloc_aligned", 4, funcs=REA_FUNCS, cost=90, defines=SMALLB,
               bounds="as C05.recalloc_aligned"),
    ]
    obs += page_obs("C03", [E_USABLE, E_FREE], sizes=((48, 4),), flavours=("release",))
    obs += page_obs("C03", [E_USABLE], sizes=((48, 3),), flavours=("debug",), tier="extended", timeout=3000)
    for b in (2, 6, 13, 33, 48):
        obs.append(O("C03.page_start.bin%02d" % b, "c16_arith.c", "h_page_start", defines=["BIN=%d" % b], funcs=["_mi_segment_page_start_from_slice"], cost=30,
                     bounds="real bin %d: page start is block-size aligned (natural alignment guarantee)" % b))
    obs += queue_obs("C03", which=("fullmoves",))
    obs += huge_geometry_obs("C03") + fresh_alloc_obs("C03")
    obs += [o for o in segment_alloc_full_obs("C03", flavours=("release",)) if ".al." in o["id"] and "arena_fail" not in o["id"]]
    return obs


PROPS["C03"] = dict(
    obligations=c03,
    bounds="aligned allocation: full-width symbolic size/alignment(<=2^40)/offset against the mock core; interior pointers: pages of 4 blocks of 48 bytes with any 8-aligned (usable size: any byte) adjustment; page starts for real bins",
    outside="huge-alignment segment layout (mi_segment_huge_page_alloc / _mi_os_alloc_aligned_at_offset composition is only covered at the OS level, C11); mi_usable_size >= n for plain malloc is C16.bin/good_size + C01",
    assumptions=API_STUBS + PAGE_STUBS,
    trusted=["api_logic.c", "page_layer.c"],
)


# ------------------------------------------------------------------------------------------------
# page queues / heaps (queue_layer.c): C10, and queue items of C01/C03/C08
QUEUE_STUBS = ["two heaps copied from _mi_heap_empty; the deleted heap owns 3 pages of one size class, each in its size queue or the full queue, has_aligned and delayed-free flags symbolic; the backing heap owns 0-2 pages",
               "_mi_heap_delayed_free_partial/_all: recording stubs (order of the drains is asserted); atomics sequential"]


def q_ob(id, entry, **kw):
    kw.setdefault("unwind", 8)
    kw.setdefault("unwindset", ["mi_heap_queue_first_update.1:140", "mi_heap_queue_first_update.0:6", "mi_heap_absorb.0:80", "_mi_memcpy_aligned.0:4"])
    kw.setdefault("timeout", 900)
    kw.setdefault("native_replay", False)
    kw.setdefault("replace", {"_mi_heap_delayed_free_partial": "stub_delayed_free_partial", "_mi_heap_delayed_free_all": "stub_delayed_free_all"})
    d = list(kw.pop("defines", [])) + ["MI_PRIM_THREAD_ID=verif_tid"]
    return O(id, "queue_layer.c", entry, defines=d, **kw)


def queue_obs(prefix, which=("absorb", "fullmoves")):
    obs = []
    if "absorb" in which:
        for af, bh in ((0b000, 0), (0b010, 3), (0b101, 1), (0b111, 2)):
            obs.append(q_ob(prefix + ".heap_absorb.a%d_b%d" % (af, bh), "h_absorb", defines=["AFULL=%d" % af, "BHAS=%d" % bh], cost=60,
                            funcs=["mi_heap_absorb", "_mi_page_queue_append", "_mi_page_use_delayed_free", "_mi_page_try_use_delayed_free", "mi_heap_queue_first_update", "mi_heap_reset_pages"],
                            bounds="3 pages (64-byte class) of the deleted heap, in the full queue: mask %s; backing heap pages: mask %s; flags symbolic" % (bin(af), bin(bh))))
    if "fullmoves" in which:
        for af, k in ((0b001, 0), (0b010, 0), (0b110, 1), (0b000, 2), (0b111, 1), (0b110, 0), (0b011, 2)):   # the last two: the size queue becomes empty
            obs.append(q_ob(prefix + ".full_queue_moves.a%d_k%d" % (af, k), "h_fullmoves", defines=["AFULL=%d" % af, "BHAS=0", "KPAGE=%d" % k], cost=40,
                            funcs=["_mi_page_unfull", "mi_page_to_full", "mi_page_queue_enqueue_from_ex", "mi_page_set_in_full", "mi_heap_page_queue_of", "mi_heap_queue_first_update", "_mi_page_free_collect"],
                            bounds="3 pages (64-byte class), full-queue mask %s, page %d moved to/from the full queue; flags symbolic" % (bin(af), k)))
    return obs


def force_abandon_obs(prefix):
    return [q_ob(prefix + ".force_abandon.a%d_k%d" % (af, k), "h_force_abandon", defines=["AFULL=%d" % af, "BHAS=0", "KPAGE=%d" % k], cost=30,
                 replace={"_mi_heap_delayed_free_partial": "stub_delayed_free_partial", "_mi_heap_delayed_free_all": "stub_delayed_free_all_move"},
                 funcs=["_mi_page_force_abandon", "_mi_page_abandon", "_mi_page_free", "mi_page_queue_remove", "mi_heap_page_queue_of", "_mi_page_use_delayed_free", "_mi_page_unfull"],
                 bounds="3 pages (64-byte class), full-queue mask %s, page %d force-abandoned; the preceding drain may move it out of the full queue" % (bin(af), k))
            for af, k in ((0b001, 0), (0b111, 1), (0b010, 1))]


def heap_destroy_obs(prefix):
    us = ["mi_heap_queue_first_update.1:140", "mi_heap_queue_first_update.0:6", "_mi_memcpy_aligned.0:4", "mi_heap_visit_pages.0:8", "mi_heap_visit_pages.1:77", "mi_heap_free.0:5", "_mi_page_use_delayed_free.0:4"]
    return [q_ob(prefix + ".heap_destroy.a%d_b%d" % (af, bh), "h_heap_destroy", defines=["AFULL=%d" % af, "BHAS=%d" % bh], cost=40, unwindset=us, std_checks=False,
                 replace={"mi_heap_delete": "stub_heap_delete"},
                 funcs=["mi_heap_destroy", "_mi_heap_destroy_pages", "mi_heap_visit_pages", "_mi_heap_page_destroy", "mi_heap_reset_pages", "mi_heap_free", "_mi_page_use_delayed_free", "_mi_heap_set_default_direct"],
                 bounds="3 pages (64-byte class) of the destroyed heap, full-queue mask %s; backing heap pages mask %s; destroyable or not; default or not; two positions in the heap list" % (bin(af), bin(bh)))
            for af, bh in ((0b000, 0), (0b101, 3), (0b111, 1))] + [
        q_ob(prefix + ".heap_delete", "h_heap_delete", defines=["AFULL=2", "BHAS=1"], cost=10, unwindset=us, std_checks=False,
             replace={"mi_heap_absorb": "stub_heap_absorb", "_mi_heap_collect_abandon": "stub_collect_abandon"},
             funcs=["mi_heap_delete", "mi_heaps_are_compatible", "mi_heap_free", "_mi_heap_set_default_direct"],
             bounds="deleted heap and backing heap with any tags / arena ids; deleting the backing heap itself; default or not"),
        q_ob(prefix + ".check_owned", "h_check_owned", defines=["AFULL=2", "BHAS=3"], cost=30, unwindset=us, std_checks=False,
             funcs=["mi_heap_check_owned", "mi_heap_page_check_owned", "mi_heap_visit_pages", "mi_page_start"],
             bounds="3+2 pages of two heaps with disjoint areas, any address inside one of them")]


def find_free_obs(prefix, psts=tuple(range(27))):
    return [q_ob(prefix + ".find_free.s%02d%s" % (pst, "" if fr else ".nofresh"), "h_find_free", defines=["AFULL=0", "BHAS=0", "PST=%d" % pst, "FRESH_OK=%d" % fr], cost=10, std_checks=False, unwind=10,
                unwindset=["mi_heap_queue_first_update.1:140", "mi_heap_queue_first_update.0:6", "_mi_memcpy_aligned.0:4"],
                replace={"mi_page_extend_free": "stub_extend_free", "mi_page_fresh": "stub_page_fresh", "_mi_heap_collect_retired": "stub_collect_retired"},
                funcs=["mi_find_free_page", "mi_page_queue_find_free_ex", "mi_page_to_full", "mi_page_queue_move_to_front", "mi_page_queue_enqueue_from_ex", "_mi_page_free_collect", "mi_heap_queue_first_update"],
                bounds="size queue of 3 pages (64-byte class), page states (base 3: 0 full, 1 free block, 2 extendable) = %d; fresh page %s" % (pst, "granted" if fr else "refused")) for pst in psts for fr in ((1, 0) if pst == 0 else (1,))]


def heap_collect_obs(prefix, combos=((0, 0, 1), (1, 2, 4), (0, 0, 3), (1, 5, 9), (2, 0, 5), (2, 2, 21), (1, 7, 26), (2, 7, 13), (1, 0, 0), (2, 0, 9), (0, 7, 13))):
    us = ["mi_heap_queue_first_update.1:140", "mi_heap_queue_first_update.0:6", "_mi_memcpy_aligned.0:4", "mi_heap_visit_pages.0:8", "mi_heap_visit_pages.1:77", "_mi_page_thread_free_collect.0:4", "_mi_page_thread_free_collect.1:6"]
    return [q_ob(prefix + ".heap_collect.m%d.a%d.s%02d" % (cm, af, pst), "h_heap_collect", defines=["AFULL=%d" % af, "BHAS=0", "CMODE=%d" % cm, "PST=%d" % pst], cost=20, unwindset=us, std_checks=False, unwind=10,
                 replace={"_mi_heap_delayed_free_all": "stub_delayed_free_all2", "_mi_heap_collect_retired": "stub_collect_retired2", "_mi_ptr_segment": "stub_ptr_segment_q"},
                 funcs=["mi_heap_collect_ex", "mi_heap_page_collect", "mi_heap_page_never_delayed_free", "mi_heap_visit_pages", "_mi_page_free_collect", "_mi_page_thread_free_collect", "_mi_page_free", "_mi_page_abandon", "mi_page_queue_remove", "mi_heap_queue_first_update"],
                 bounds="3 pages (64-byte class), full-queue mask %s, page states %d (base 3: 0 freed locally, 1 live, 2 freed remotely), collect mode %s" % (bin(af), pst, ("normal", "force", "abandon")[cm]))
            for (cm, af, pst) in combos]


def fresh_alloc_obs(prefix):
    return [q_ob(prefix + ".fresh_alloc.%s" % nm, "h_fresh_alloc", defines=["AFULL=0", "BHAS=0", "FRESH_KIND=%d" % k, "FRESH_BITS=42"] + (["LSIZE=%d" % ls, "HALIGN=%d" % ha] if ls else []), cost=30, std_checks=False, unwind=10,
                 replace={"mi_page_extend_free": "stub_extend_free2", "_mi_ptr_segment": "stub_ptr_segment_f"},
                 funcs=["mi_page_fresh", "mi_large_huge_page_alloc", "mi_page_fresh_alloc", "mi_page_init", "mi_page_queue_push", "mi_heap_queue_first_update"],
                 bounds="%s; page area size symbolic under the segment layer's contract" % ("one page of the 64-byte class" if k == 0 else "huge block of %d bytes, alignment %d" % (ls, ha) if k == 1 else "large block of %d bytes" % ls))
            for (nm, k, ls, ha) in (("small", 0, 0, 0), ("huge20m", 1, 20 * 1024 * 1024, 0), ("huge1m.al32m", 1, 1024 * 1024, 32 * 1024 * 1024), ("huge100k.al64m", 1, 100 * 1024, 64 * 1024 * 1024), ("huge3g.al1g", 1, 3 * 1024 * 1024 * 1024, 1024 * 1024 * 1024),
                                    ("large200k", 2, 200 * 1024, 0), ("large1m", 2, 1024 * 1024 + 8, 0), ("large16m", 2, 16 * 1024 * 1024, 0))]


def visit_areas_obs(prefix):
    us = ["mi_heap_queue_first_update.1:140", "mi_heap_queue_first_update.0:6", "_mi_memcpy_aligned.0:4", "mi_heap_visit_pages.0:8", "mi_heap_visit_pages.1:77"]
    return [q_ob(prefix + ".visit_areas.a%d_b%d" % (af, bh), "h_visit_areas", defines=["AFULL=%d" % af, "BHAS=%d" % bh], cost=20, unwindset=us, std_checks=False,
                 funcs=["mi_heap_visit_blocks", "mi_heap_visit_areas", "mi_heap_visit_areas_page", "mi_heap_area_visitor", "mi_heap_visit_pages", "_mi_heap_area_init"],
                 bounds="heap with 3 pages (full-queue mask %s) next to another heap with pages (mask %s); visitor may stop after any call" % (bin(af), bin(bh)))
            for (af, bh) in ((0, 3), (5, 1), (7, 2))]


def heap_by_tag_ob(prefix):
    return q_ob(prefix + ".heap_by_tag", "h_heap_by_tag", cost=5, funcs=["_mi_heap_by_tag"], bounds="3 heaps of a thread with symbolic tags / no_reclaim flags (backing heap last), any starting heap and tag")


def heap_new_ob(prefix):
    return q_ob(prefix + ".heap_new", "h_heap_new", defines=["AFULL=0", "BHAS=0"], cost=10, replace={"mi_heap_malloc": "stub_heap_malloc", "mi_malloc": "stub_malloc_default", "mi_heap_get_default": "stub_heap_get_default"},
                funcs=["mi_heap_new", "mi_heap_new_in_arena", "mi_heap_new_ex", "mi_heap_get_backing", "_mi_heap_init"], bounds="default heap different from the backing heap; descriptor allocation may fail")


def collect_abandon_ob(prefix):
    return q_ob(prefix + ".collect_abandon", "h_collect_abandon", defines=["AFULL=5", "BHAS=0"], cost=10,
                unwindset=["mi_heap_queue_first_update.1:140", "mi_heap_queue_first_update.0:6", "mi_heap_visit_pages.1:80", "mi_heap_visit_pages.0:8", "_mi_heap_collect_retired.0:80", "_mi_memcpy_aligned.0:4"],
                replace={"_mi_heap_delayed_free_all": "stub_delayed_free_all_check", "_mi_heap_delayed_free_partial": "stub_delayed_free_partial", "mi_heap_page_collect": "stub_heap_page_collect"},
                funcs=["_mi_heap_collect_abandon", "mi_heap_collect_ex", "mi_heap_visit_pages", "mi_heap_page_never_delayed_free", "_mi_page_use_delayed_free", "_mi_heap_collect_retired"],
                bounds="heap with 3 pages (size queue and full queue), thread-exit collect")


def c10():
    return queue_obs("C10") + [heap_by_tag_ob("C10"), heap_new_ob("C10")] + heap_destroy_obs("C10")


PROPS["C10"] = dict(
    obligations=c10,
    bounds="two heaps, 3+2 pages of one size class (64 bytes) distributed over size queue and full queue; delayed-free flags USE/NO",
    outside="interleavings of mi_heap_delete / mi_heap_destroy with remote frees (only the flag protocol of each migrated/destroyed page is asserted: the delayed-freeing hand-shake itself is the C02 rely/guarantee lemma); release of a destroyed page inside the segment layer is C01.page_free_full; heaps with different tags/arenas (abandon path); mi_heap_contains_block's pointer arithmetic is C16",
    assumptions=QUEUE_STUBS,
    trusted=["queue_layer.c"],
)


# ------------------------------------------------------------------------------------------------
# C02 / C08: cross-thread free lists under rely/guarantee (lists_rg.c)
LRG_ASSUME = ["interleavings at the granularity of atomic operations under sequential consistency; before every atomic access of the function under test the other threads take up to 2 steps (remote push, delayed-freeing hand-shake, owner take-over of either list, owner flag change); weak CAS may fail spuriously",
              "4 blocks in one page; arbitrary initial distribution over live / page thread-free list / heap delayed list / owner-private; flags arbitrary (not FREEING at the start)",
              "_mi_free_delayed_block replaced by a recording stub in the delayed-list drain"]


def lrg_ob(id, entry, **kw):
    kw.setdefault("unwind", 8)
    kw.setdefault("timeout", 1200)
    kw.setdefault("native_replay", False)
    kw.setdefault("std_checks", False)
    d = list(kw.pop("defines", [])) + ["MI_PRIM_THREAD_ID=verif_tid"]
    return O(id, "lists_rg.c", entry, defines=d, **kw)


def lists_obs(prefix):
    return [
        lrg_ob(prefix + ".remote_free", "h_remote_free", funcs=["mi_free_block_delayed_mt", "mi_block_set_next", "mi_block_set_nextx", "mi_tf_set_delayed", "mi_tf_set_block"], cost=200,
               bounds="4 blocks, <=2 interfering steps in total, CAS retries unwound 8"),
        lrg_ob(prefix + ".owner_collect", "h_owner_collect", funcs=["_mi_page_thread_free_collect", "mi_block_next", "mi_tf_block"], cost=200,
               bounds="4 blocks, <=2 interfering steps"),
        lrg_ob(prefix + ".owner_delayed", "h_owner_delayed", replace={"_mi_free_delayed_block": "stub_free_delayed_block"}, funcs=["_mi_heap_delayed_free_partial", "mi_block_nextx"], cost=200,
               bounds="4 blocks, <=2 interfering steps"),
    ]


MT_REPL = {"_mi_ptr_segment": "stub_ptr_segment", "_mi_segment_page_of": "stub_segment_page_of", "_mi_segment_page_start": "stub_segment_page_start",
           "mi_free_block_delayed_mt": "stub_free_block_delayed_mt"}
E_FREE_MT = ("h_free_mt", ["mi_free", "mi_free_generic_mt", "mi_free_block_mt", "mi_check_padding", "mi_stat_free", "_mi_padding_shrink"])
E_OV_MT = ("h_overflow_detect_mt", ["mi_free", "mi_free_generic_mt", "mi_free_block_mt", "mi_check_padding", "_mi_padding_shrink"])


def free_mt_obs(prefix):
    us = ["stub_free_block_delayed_mt.0:12", "stub_free_block_delayed_mt.1:40", "h_free_mt.0:40"]
    return (page_obs(prefix, [E_FREE_MT], sizes=((32, 3),), flavours=("release",), timeout=900, replace=MT_REPL, unwindset=us, std_checks=False)
            + page_obs(prefix, [E_FREE_MT], sizes=((32, 2),), flavours=("debug", "secure"), tier="thorough", timeout=2400, replace=MT_REPL, unwindset=us, std_checks=False)
            + page_obs(prefix, [E_OV_MT], sizes=((32, 2),), flavours=("debug", "secure"), timeout=900, replace=MT_REPL, std_checks=False))


def c02():
    return lists_obs("C02") + page_obs("C02", [E_COLLECT, E_MALLOC], sizes=((32, 5),), flavours=("release",)) + free_mt_obs("C02") + force_abandon_obs("C02") + [
        ar_ob("C02.abandon_bit", "h_abandon_bit", cost=30, funcs=["_mi_arena_segment_clear_abandoned", "_mi_arena_segment_mark_abandoned", "_mi_bitmap_unclaim", "_mi_bitmap_claim"],
              bounds="reclaim-on-free ownership decision: one arena of 8 blocks, abandoned bitmap word under interference")]


PROPS["C02"] = dict(
    obligations=c02,
    bounds="one page of 4 blocks shared between the owner and any number of remote threads; at most 2 interfering steps per call; plus the sequential page lemmas (collect recount, pop only from the free list)",
    outside="weak memory orders; more than 2 interfering steps per call; the reclaim-on-free path and abandoned segments (C09); composition 'a block is handed out again at most once per free' combines these with C01.malloc",
    assumptions=LRG_ASSUME + PAGE_STUBS,
    trusted=["lists_rg.c rely/guarantee encoding (ghost block locations)"],
)


E_FREE_DELAYED = ("h_free_delayed", ["_mi_free_delayed_block", "_mi_page_try_use_delayed_free", "_mi_page_free_collect", "mi_free_block_local"])


def c08():
    return lists_obs("C08") + page_obs("C08", [E_COLLECT, E_FREE_DELAYED], sizes=((32, 5),), flavours=("release",)) + queue_obs("C08") + [segment_reclaim_ob("C08")] + find_free_obs("C08", psts=(0, 2, 5, 6, 8, 18, 20, 24, 26)) + heap_collect_obs("C08")


PROPS["C08"] = dict(
    obligations=c08,
    bounds="as C02 plus the full-queue moves of a page (3 pages)",
    outside="the bounded-memory conclusion for producer/consumer workloads is the hand composition of 'no remote free is lost' + 'full pages return to their queue' + periodic drains; the NO_DELAYED_FREE flag invariant of types.h is not machine-checked",
    assumptions=LRG_ASSUME + PAGE_STUBS + QUEUE_STUBS,
    trusted=["lists_rg.c", "queue_layer.c", "page_layer.c"],
)


# ------------------------------------------------------------------------------------------------
# C09 abandonment (arena_layer.c: arena-abandon.c is part of arena.c)
LOCK_REPL = {"mi_lock_try_acquire": "stub_lock_try_acquire", "mi_lock_acquire": "stub_lock_acquire", "mi_lock_release": "stub_lock_release"}


def c09():
    obs = [
        ar_ob("C09.abandon_bit", "h_abandon_bit", cost=30, funcs=["_mi_arena_segment_clear_abandoned", "_mi_arena_segment_mark_abandoned", "_mi_bitmap_unclaim", "_mi_bitmap_claim", "mi_arena_memid_indices"],
              bounds="one arena of 8 blocks, any block, abandoned bitmap word under interference (<= 2 arbitrary rewrites by other threads between the atomic operations)"),
        ar_ob("C09.abandon_at", "h_abandon_at", cost=30, funcs=["mi_arena_segment_clear_abandoned_at", "_mi_bitmap_unclaim", "_mi_bitmap_claim", "mi_arena_block_start"],
              bounds="one arena block holding a segment of the same or another sub-process, marked or not"),
    ]
    for ln, tg in ((1, 0), (2, 1), (2, 0), (3, 1), (3, 2), (1, 1), (0, 0)):
        obs.append(ar_ob("C09.abandon_os.len%d_t%d" % (ln, tg), "h_abandon_os", defines=["LISTLEN=%d" % ln, "TARGET=%d" % tg], replace=LOCK_REPL, cost=20,
                         funcs=["mi_arena_segment_os_clear_abandoned", "mi_arena_segment_os_mark_abandoned", "_mi_arena_segment_clear_abandoned"],
                         bounds="abandoned OS list of %d segments, reclaiming entry %d (%s)" % (ln, tg, "not on the list" if tg >= ln else "on the list")))
    obs += lists_obs("C09")[:1]
    obs += reclaim_obs("C09")
    obs.append(abandoned_visit_ob("C09"))
    obs += force_abandon_obs("C09")
    obs.append(heap_by_tag_ob("C09"))
    obs.append(collect_abandon_ob("C09"))
    obs.append(segment_reclaim_ob("C09"))
    obs += seg_reclaim_full_obs("C09") + check_free_obs("C09") + thread_done_obs("C09") + cursor_fields_obs("C09")[:3]
    obs += [o for o in page_free_full_obs("C09") if o["id"].endswith(".abandoned")]
    return obs


PROPS["C09"] = dict(
    obligations=c09,
    bounds="abandonment markers: one arena bitmap word under interference; OS abandoned list of 0-3 segments; sub-process filter; remote free into a page (as C02)",
    outside="whole thread exit (mi_thread_done call order); mi_segment_abandon / mi_segment_reclaim on slice maps other than the concrete 4- and 8-slice layouts; mi_segment_check_free; live block contents across abandonment",
    assumptions=ARENA_STUBS + ["mi_lock_*: ghost boolean (try_acquire may fail); interference on the abandoned bitmap word: arbitrary rewrites"],
    trusted=["arena_layer.c"],
)


# ------------------------------------------------------------------------------------------------
# segment commit/purge lemmas (segment_layer.c): C13, C07, part of C18
SEG_STUBS = ["_mi_os_commit may refuse on every call; _mi_os_purge decommits or resets (nondeterministic); ghost set of OS-committed commit blocks",
             "segment state: commit and purge masks symbolic inside a 16-block window that crosses a mask-field boundary (blocks 56..71), purge subset of commit, rest of the segment uncommitted; clock non-decreasing; options symbolic",
             "slice-map lemmas: header-only segment object; _mi_ptr_segment replaced by a stub returning it (its arithmetic: C16.ptr_segment); CBMC --max-field-sensitivity-array-size 520; _mi_memzero replaced by an exact byte loop (page clear) or by a range-checked field-wise zeroing (segment header); arena/OS refusal schedules concrete per obligation; _mi_page_reclaim/_mi_page_free_collect/_mi_heap_by_tag recording stubs; _mi_page_use_delayed_free sequential model"]


def sg_ob(id, entry, **kw):
    kw.setdefault("unwind", 20)
    kw.setdefault("unwindset", ["wfield.0:18", "mask_from.0:10", "_mi_commit_mask_next_run.0:66", "_mi_commit_mask_next_run.1:10", "_mi_commit_mask_next_run.2:66", "_mi_commit_mask_next_run.3:20",
                                "_mi_commit_mask_committed_size.0:66", "_mi_commit_mask_committed_size.1:10", "mi_commit_mask_create.0:10", "mi_segment_try_purge.0:12", "h_next_run.0:76", "h_next_run.1:20"])
    kw.setdefault("timeout", 900)
    kw.setdefault("native_replay", False)
    return O(id, "segment_layer.c", entry, **kw)


def seg_obs(prefix, which):
    tab = {
        "commit_mask": ("h_commit_mask", ["mi_segment_commit_mask", "mi_commit_mask_create", "_mi_align_up", "_mi_align_down"], "any slice-or-finer range inside a segment, conservative and liberal rounding"),
        "seg_commit": ("h_seg_commit", ["mi_segment_commit", "mi_segment_ensure_committed", "mi_segment_commit_mask", "mi_commit_mask_set", "mi_commit_mask_clear", "mi_commit_mask_all_set", "mi_commit_mask_any_set"], "masks symbolic in a 16-block window, any block range inside it, OS may refuse"),
        "seg_purge": ("h_seg_purge", ["mi_segment_purge", "mi_segment_commit_mask", "mi_commit_mask_clear"], "masks symbolic in a 16-block window, any block range inside it"),
        "try_purge": ("h_try_purge", ["mi_segment_try_purge", "_mi_commit_mask_next_run", "mi_segment_purge"], "purge mask symbolic in a 16-block window crossing a field boundary, any expiry/clock, forced or not"),
        "next_run": ("h_next_run", ["_mi_commit_mask_next_run"], "mask symbolic in a 16-block window crossing a field boundary, any start index"),
    }
    return [sg_ob("%s.%s" % (prefix, w), tab[w][0], funcs=tab[w][1], bounds=tab[w][2], cost=60) for w in which]


SEG_SHAPES = [(0x0F0F, 0x0303, 58, 8), (0x0000, 0x0000, 56, 16), (0xFF00, 0x0F00, 56, 8), (0x3C3C, 0x0C0C, 57, 14)]
PURGE_SHAPES = [(0xFFFF, 0x0FF0), (0xF0FF, 0x30C3), (0x8001, 0x8001)]


def seg_shape_obs(prefix, which):
    obs = []
    if "seg_commit" in which or "seg_purge" in which:
        for (cb, pb, b0, nb) in SEG_SHAPES:
            for w in ("seg_commit", "seg_purge"):
                if w in which:
                    obs.append(sg_ob("%s.%s.c%04x_p%04x_r%d_%d" % (prefix, w, cb, pb, b0, nb), "h_" + w, defines=["CB=0x%x" % cb, "PB=0x%x" % pb, "RB0=%d" % b0, "RNB=%d" % nb],
                                     unwind=70, unwindset=[], std_checks=False, cost=10,
                                     funcs=["mi_segment_commit", "mi_segment_ensure_committed", "mi_segment_purge", "mi_segment_commit_mask", "mi_commit_mask_set", "mi_commit_mask_clear", "mi_commit_mask_create_intersect"],
                                     bounds="commit mask %04x / purge mask %04x in the 16-block window at block 56, range [%d,%d): OS answers, options, clock symbolic" % (cb, pb, b0, b0 + nb)))
    if "try_purge" in which:
        for (cb, pb) in PURGE_SHAPES:
            obs.append(sg_ob("%s.try_purge.c%04x_p%04x" % (prefix, cb, pb), "h_try_purge", defines=["CB=0x%x" % cb, "PB=0x%x" % pb], unwind=70, unwindset=[], std_checks=False, cost=10,
                             funcs=["mi_segment_try_purge", "_mi_commit_mask_next_run", "mi_segment_purge"],
                             bounds="commit mask %04x / purge mask %04x (window at block 56, crossing a mask-field boundary), any expiry/clock, forced or not" % (cb, pb)))
    return obs


def huge_geometry_obs(prefix, flavours=("release", "secure")):
    return [sg_ob("%s.huge_geometry.%s" % (prefix, fl), "h_huge_geometry", flavour=fl, unwind=8, unwindset=[], std_checks=False, cost=30,
                  funcs=["mi_segment_alloc", "mi_segment_os_alloc", "mi_segment_calculate_slices", "_mi_align_up", "_mi_ptr_segment"],
                  bounds="any size 1..2^40, any alignment 2^k with 2^25 <= 2^k <= 2^40, any base address the arena contract allows (< 2^47), %s build" % fl) for fl in flavours]


def segment_alloc_full_obs(prefix, flavours=("release", "secure"), tier="quick"):
    cases = [("normal", 0, 0), ("huge1", 1, 0), ("huge100k", 100 * 1024, 0), ("huge40m", 40 * 1024 * 1024, 0), ("huge1.al", 1, 1), ("huge20m.al", 20 * 1024 * 1024, 1)]
    obs = []
    for fl in flavours:
        for nm, req, al in cases:
            for zm, af, cf in ((1, 0, 0), (0, 0, 0), (1, 1, 0), (1, 0, 1)):
                if (af and nm not in ("normal", "huge1.al")) or (cf and nm != "normal"): continue
                obs.append(sg_ob("%s.segment_alloc_full.%s.%s.%s" % (prefix, nm, "arena_fail" if af else "commit_fail" if cf else "fresh" if zm else "recycled", fl), "h_segment_alloc_full", flavour=fl, tier=tier,
                                 defines=["REQ=%d" % req, "ALIGN=%s" % ("MI_SEGMENT_SIZE" if al else "0"), "ZEROMEM=%d" % zm, "ARENA_FAIL=%d" % af, "COMMIT_FAIL_AT=%d" % cf], unwind=40, std_checks=False, cost=60,
                                 unwindset=SEG_UNWINDSET + ["stub_memzero_seg.0:520", "mi_segment_span_allocate.0:260"], cbmc_flags=["--max-field-sensitivity-array-size", "520"],
                                 replace={"_mi_ptr_segment": "stub_ptr_segment2", "_mi_memzero": "stub_memzero_seg"},
                                 funcs=["mi_segment_alloc", "mi_segment_os_alloc", "mi_segment_calculate_slices", "mi_segment_span_allocate", "mi_segment_span_free", "mi_segment_huge_page_alloc", "_mi_segment_page_of", "_mi_segment_page_start"],
                                 bounds="request %d bytes (0 = normal segment), alignment %s, %s memory, %s build; options, commit state and OS answers symbolic" % (req, "one segment" if al else "none", "zeroed" if zm else "arbitrary (recycled)", fl)))
    return obs


def page_alloc_dispatch_ob(prefix):
    return sg_ob(prefix + ".page_alloc_dispatch", "h_page_alloc_dispatch", unwind=6, unwindset=[], std_checks=False, cost=20,
                 replace={"mi_segments_page_find_and_allocate": "stub_find_and_allocate", "mi_segment_reclaim_or_alloc": "stub_reclaim_or_alloc", "mi_segment_huge_page_alloc": "stub_huge_page_alloc",
                          "mi_segment_try_purge": "stub_try_purge_noop", "_mi_ptr_segment": "stub_ptr_segment3"},
                 funcs=["_mi_segment_page_alloc", "mi_segments_page_alloc", "_mi_align_up"], bounds="any block size 1..2^40, any alignment (0 or a power of two above MI_BLOCK_ALIGNMENT_MAX up to 2^40); <= 3 search attempts")


def segment_alloc_commit_ob(prefix):
    return sg_ob(prefix + ".segment_alloc_commit", "h_segment_alloc_commit", replace={"mi_segment_os_alloc": "stub_segment_os_alloc"}, unwind=8, unwindset=[], std_checks=False, cost=10,
                 funcs=["mi_segment_alloc"], bounds="any required size (0 = normal segment, > 0 = huge), any huge alignment, options symbolic")


def c13():
    return [segment_alloc_commit_ob("C13")] + seg_obs("C13", ["commit_mask", "next_run"]) + seg_shape_obs("C13", ["seg_commit", "seg_purge", "try_purge"]) + [
        arena_free_ob("C13"), arena_alloc_ob("C13"),
        os_ob("C13.page_align", "h_page_align", funcs=["mi_os_page_align_areax", "_mi_align_up", "_mi_align_down"], cost=20, bounds="any address and size"),
        os_ob("C13.os_purge", "h_purge", funcs=["_mi_os_purge_ex", "mi_os_decommit_ex", "_mi_os_reset", "_mi_os_commit_ex"], cost=20, bounds="any range, decommit or reset mode, any delay")] + arena_expiry_ob("C13")[:2] + [
        o for o in page_free_full_obs("C13") if o["id"].endswith(".owned")] + span_obs("C13", which=("span_alloc",))[1:3] + [
        o for o in segment_alloc_full_obs("C13", flavours=("release",)) if ".normal.fresh" in o["id"] or ".normal.recycled" in o["id"] or ".huge100k.fresh" in o["id"]]


PROPS["C13"] = dict(
    obligations=c13,
    bounds="all option values symbolic (purge delay, decommit vs reset, eager commit) in every lemma; segment masks in a 16-block window; arenas of 8 blocks",
    outside="the span/slice-map side (a used span is covered by the commit mask; purge_mask and used spans disjoint) is decided on one concrete 8-slice layout only (span_alloc, page_free_full); other layouts are the composition of seg_commit with span allocation; pairwise whole-allocator runs per option",
    assumptions=SEG_STUBS + ARENA_STUBS + OS_STUBS,
    trusted=["segment_layer.c ghost committed set", "arena_layer.c", "os_layer.c"],
)


def c07():
    return os_roundtrip_obs("C07") + span_obs("C07", which=("span_alloc",)) + [o for o in segment_alloc_full_obs("C07", flavours=("release",)) if "_fail" in o["id"]] + seg_shape_obs("C07", ["seg_commit"]) + [o for o in td_obs("C07") if "td_zalloc.c0" in o["id"]] + [arena_alloc_ob("C07"), arena_free_ob("C07"),
        os_ob("C07.os_purge_commit", "h_purge", funcs=["_mi_os_commit_ex", "_mi_os_purge_ex"], cost=20, bounds="commit/purge with refusing OS")]


PROPS["C07"] = dict(
    obligations=c07,
    bounds="every OS answer symbolic in: one OS allocation+free round trip, one segment commit (16-block window), one arena block claim with commit (8 blocks), one span allocation in an 8-slice segment; concrete refusal schedules for a whole segment allocation",
    outside="span allocation undo and segment set-up failure are decided on concrete slice layouts and concrete refusal schedules only (span_alloc: 8-slice layout, refused commit of the carved span; segment_alloc_full: arena refusal, refusal of the first metadata commit); thread metadata allocation failure; _mi_malloc_generic retry across layers; crash-freedom of whole workloads under fault injection",
    assumptions=OS_STUBS + SEG_STUBS + ARENA_STUBS,
    trusted=["os_layer.c", "segment_layer.c", "arena_layer.c"],
)
