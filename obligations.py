"""Obligation table: property -> list of solver obligations (see DESIGN.md 1.2).
Each obligation: id, harness (file under harness/), entry (function; also -DHARNESS_<entry>), flavour,
defines, unwind/unwindset, cbmc_flags, timeout (s), tier ('quick' obligations also run in thorough),
funcs (real functions encoded), bounds (text), cost (scheduling hint)."""

PROPS = {}


def O(id, harness, entry, tier="quick", **kw):
    d = dict(id=id, harness=harness, entry=entry, tier=tier)
    d.update(kw)
    return d


def obligations(pid, tier):
    obs = PROPS[pid]["obligations"]()
    if tier == "quick":
        return [o for o in obs if o["tier"] == "quick"]
    return [o for o in obs if o["tier"] in ("quick", "thorough")]


# ------------------------------------------------------------------------------------------------
# C16 size-class and address arithmetic
REAL_BINS_QUICK = [1, 2, 6, 9, 13, 22, 33, 40, 43, 48]     # 8,16,24,48,80(?)... indices into the real table
ALL_BINS = list(range(1, 49))   # bins that mi_bin can select (<= MI_MEDIUM_OBJ_SIZE_MAX = 64KiB); 49..72 of the table are unused


def c16():
    obs = [
        O("C16.bin", "c16_arith.c", "h_bin", funcs=["mi_bin", "_mi_bin", "_mi_bin_size", "_mi_wsize_from_size", "mi_clz"],
          bounds="all 64-bit sizes (precondition size <= SIZE_MAX-8), two symbolic sizes for monotonicity", timeout=600, cost=30),
        O("C16.bintable", "c16_arith.c", "h_bintable", funcs=["_mi_bin_size", "mi_bin", "mi_page_queue_is_huge", "mi_page_queue_is_full"],
          bounds="all 72 regular bins", cost=5),
        O("C16.good_size", "c16_arith.c", "h_good_size", funcs=["mi_good_size", "mi_page_queue", "_mi_bin", "_mi_align_up", "_mi_os_page_size"],
          bounds="all sizes 0..PTRDIFF_MAX", cost=20),
        O("C16.slice_bin", "c16_arith.c", "h_slice_bin", funcs=["mi_slice_bin8", "mi_slice_bin", "mi_bsr"],
          bounds="all slice counts 0..512 (two symbolic counts)", cost=5),
        O("C16.ptr_segment", "c16_arith.c", "h_ptr_segment", funcs=["_mi_ptr_segment"],
          bounds="all offsets 1..MI_SEGMENT_SIZE inside a segment object (base = CBMC object address)", cost=5),
        O("C16.page_of", "c16_arith.c", "h_page_of", funcs=["_mi_segment_page_of", "mi_slice_first", "mi_slice_to_page"],
          bounds="all span positions/lengths in a 512-slice segment, all interior byte offsets", cost=60, timeout=900),
        O("C16.helpers", "c16_arith.c", "h_helpers", funcs=["_mi_align_up", "_mi_align_down", "_mi_divide_up", "_mi_is_power_of_two", "_mi_wsize_from_size", "_mi_clamp"],
          bounds="64-bit symbolic value and alignment", cost=60, timeout=900, tier="thorough"),
        O("C16.bits", "c16_arith.c", "h_bits", funcs=["mi_clz", "mi_ctz", "mi_bsr", "mi_popcount", "_mi_popcount_generic"],
          bounds="all 64-bit values", unwind=66, cost=20),
        O("C16.unalign.sym", "c16_arith.c", "h_unalign", funcs=["_mi_page_ptr_unalign"],
          bounds="symbolic block size (multiple of 8, <= 16MiB), page start, block offset < 32MiB, interior offset", cost=120, timeout=900, tier="thorough"),
        O("C16.unalign.pow2", "c16_arith.c", "h_unalign_pow2", funcs=["_mi_page_ptr_unalign", "mi_ctz"],
          bounds="block size 2^k for k=3..40, block index 0/1, all interior offsets", cost=20, std_checks=False),
    ]
    for b in ALL_BINS:
        t = "quick" if b in REAL_BINS_QUICK else "thorough"
        obs.append(O("C16.unalign.bin%02d" % b, "c16_arith.c", "h_unalign", tier=t, defines=["BIN=%d" % b],
                     funcs=["_mi_page_ptr_unalign"], bounds="real bin %d, all block offsets < 32MiB, all interior offsets" % b, cost=15))
        obs.append(O("C16.page_start.bin%02d" % b, "c16_arith.c", "h_page_start", tier=t, defines=["BIN=%d" % b],
                     funcs=["_mi_segment_page_start_from_slice", "_mi_align_up"],
                     bounds="real bin %d, all slice indices and counts of a 512-slice segment" % b, cost=30))
    return obs


PROPS["C16"] = dict(
    obligations=c16,
    bounds="full 64-bit symbolic sizes/addresses; page-start/unalign lemmas per real bin (driver enumerates the 72 bins, the solver covers all positions)",
    outside="segment base is CBMC's object address (0 mod 2^56): residues of page starts modulo the odd part of a block size are covered through the symbolic slice index instead of the base; mi_fast_divide is decided under C12",
    assumptions=["mi_os_mem_config.page_size keeps its static initial value 4096 in h_good_size",
                 "h_page_of: slice map entries as written by mi_segment_span_allocate (proved in C01 span lemmas)",
                 "h_unalign: block_size_shift computed as in mi_page_init"],
    trusted=["harness c16_arith.c oracles"],
)
