#!/usr/bin/env python3
"""regenerate /verif/MANIFEST.json from obligations.PROPS (single source of truth)"""
import json, os, sys
V = os.path.dirname(os.path.dirname(os.path.abspath(__file__)))
sys.path.insert(0, V)
import obligations as OB
ids = [json.loads(l)["id"] for l in open(os.path.join(V, "properties.jsonl"))]
hooks_commits = []
hf = os.path.join(V, "hooks_commits.txt")
if os.path.exists(hf):
    hooks_commits = [l.strip() for l in open(hf) if l.strip()]
checks = []
na = []
for i in ids:
    if i in OB.PROPS and not OB.PROPS[i].get("not_applicable"):
        m = OB.PROPS[i]
        checks.append({
            "property_id": i,
            "quick_cmd": "./check %s --tier quick" % i,
            "thorough_cmd": "./check %s --tier thorough" % i,
            "evidence_file": "/verif/evidence/%s.json" % i,
            "replay_cmd_template": "./check --replay {path}",
            "engine": "cbmc-harness",
            "level_claimed": {"category": "model_checking",
                              "text": m.get("level_text", "bounded symbolic checking (CBMC) of the real functions; holds for every symbolic input/pre-state within the stated bounds"),
                              "design_ref": m.get("design_ref", "DESIGN.md section 3 / " + i)},
            "level_note": m.get("level_note", "bounds: " + m.get("bounds", "") + " | outside the claim: " + m.get("outside", "")),
            "technique": m.get("technique", "bounded model checking of the real C sources with CBMC (goto-cc + SAT/SMT), symbolic inputs and pre-states, unwinding assertions"),
        })
    else:
        reason = OB.PROPS.get(i, {}).get("not_applicable") or "no solver check built for this property yet (see DESIGN.md section 5); not claimed"
        na.append({"property_id": i, "reason": reason})
man = {
    "version": 1,
    "setup_cmd": "python3 /verif/tools/setup_check.py",
    "hooks": {"guard": "MICROSOFT_MIMALLOC_VERIF",
              "enable": "harnesses are compiled with goto-cc -DMICROSOFT_MIMALLOC_VERIF from /repo's working tree (no library build needed)",
              "baseline_off_cmd": "cmake -G Ninja -B /repo/_build -S /repo && cmake --build /repo/_build && ctest --test-dir /repo/_build -j8 --timeout 900",
              "source_commits": hooks_commits, "add_only": True},
    "engines": [{"name": "cbmc-harness", "path": "/verif/check", "serves_properties": [c["property_id"] for c in checks],
                 "kind_free_text": "python driver; per obligation: goto-cc of a harness that #includes the real /repo/src/*.c, cbmc 6.11 with unwinding assertions, witness (vacuity) checks, counterexample trace extraction and native replay"}],
    "checks": checks,
    "not_applicable": na,
    "notes": "All checks rebuild their encodings from /repo's current working tree on every run. Exit 0 held / 1 VIOLATION / 2 inconclusive (fails closed). See DESIGN.md.",
}
json.dump(man, open(os.path.join(V, "MANIFEST.json"), "w"), indent=1)
print("MANIFEST.json: %d checks, %d not_applicable" % (len(checks), len(na)))
