#!/bin/bash
# run every registered quick check once (regenerates evidence/<id>.json); prints one summary line per property
cd "$(dirname "$0")/.."
for p in C01 C02 C03 C04 C05 C06 C07 C08 C09 C10 C11 C12 C13 C14 C15 C16 C17 C18 C19 C20; do
  t0=$(date +%s); ./check $p --tier ${1:-quick} > /tmp/run_${1:-quick}_$p.log 2>&1; rc=$?
  echo "$p rc=$rc $(( $(date +%s) - t0 ))s $(tail -1 /tmp/run_${1:-quick}_$p.log)"
done
