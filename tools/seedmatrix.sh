#!/bin/bash
# run every seeded defect against the quick check of its property (and extra properties given in seeded/<id>/also.txt);
# writes seeded/RESULTS.tsv:  seed  property  verdict(exit code)  first VIOLATION line
out=/verif/seeded/RESULTS.tsv
: > $out
for d in /verif/seeded/*/; do
  id=$(basename $d)
  [ -f $d/patch.diff ] || continue
  prop=$(python3 -c "import json;print(json.load(open('$d/meta.json'))['property'])" 2>/dev/null || echo ${id:0:3})
  props="$prop"
  [ -f $d/also.txt ] && props="$props $(cat $d/also.txt)"
  git -C /repo apply $d/patch.diff 2>/dev/null || { echo -e "$id\t$prop\tPATCH-DOES-NOT-APPLY\t" >> $out; continue; }
  for p in $props; do
    log=$(VERIF_TIMEOUT_CAP=${VERIF_TIMEOUT_CAP:-600} /verif/check $p --tier quick --no-evidence 2>&1)
    rc=$?
    v=$(echo "$log" | grep -m1 "counterexample" | sed 's/^ *counterexample: //' | cut -c1-160)
    echo -e "$id\t$p\t$rc\t$v" >> $out
  done
  git -C /repo checkout -- .
done
echo DONE >> $out
