#!/bin/bash
# run every round-2 seed against the quick check of its property in a scratch worktree; writes seeded/RESULTS_r2.tsv
out=/verif/seeded/RESULTS_r2.tsv; : > $out
for id in C01c C01d C02c C02d C07c C07d C08c C08d C09c C09d C10c C10d C13c C13d; do
  p=${id:0:3}
  wt=/tmp/wt/seedr2_$id
  git -C /repo worktree add -q --detach $wt HEAD || continue
  git -C $wt apply /verif/seeded/$id/patch.diff || { echo -e "$id\t$p\tPATCH-DOES-NOT-APPLY\t" >> $out; git -C /repo worktree remove --force $wt; continue; }
  log=$(VERIF_REPO=$wt VERIF_TIMEOUT_CAP=${VERIF_TIMEOUT_CAP:-600} /verif/check $p --tier quick --no-evidence 2>&1); rc=$?
  v=$(echo "$log" | grep -m1 "counterexample" | sed 's/^ *counterexample: //' | cut -c1-170)
  echo -e "$id\t$p\t$rc\t$v" >> $out
  git -C /repo worktree remove --force $wt >/dev/null 2>&1; rm -rf $wt
done
echo DONE >> $out
