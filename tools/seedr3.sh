#!/bin/bash
# run every round-3 seed against the quick check of its property in a scratch worktree; writes seeded/RESULTS_r3.tsv
out=/verif/seeded/RESULTS_r3.tsv; : > $out
for id in ${SEEDS:-C03e C03f C04e C04f C05e C05f C11e C11f C12e C12f C15e C15f C17e C17f C18e C18f}; do
  p=${id:0:3}
  wt=/tmp/wt/seedr3_$id
  git -C /repo worktree add -q --detach $wt HEAD || continue
  git -C $wt apply /verif/seeded/$id/patch.diff || { echo -e "$id\t$p\tPATCH-DOES-NOT-APPLY\t" >> $out; git -C /repo worktree remove --force $wt; continue; }
  log=$(VERIF_REPO=$wt VERIF_TIMEOUT_CAP=${VERIF_TIMEOUT_CAP:-600} /verif/check $p --tier quick --no-evidence 2>&1); rc=$?
  v=$(echo "$log" | grep -m1 "counterexample" | sed 's/^ *counterexample: //' | cut -c1-170)
  echo -e "$id\t$p\t$rc\t$v" >> $out
  git -C /repo worktree remove --force $wt >/dev/null 2>&1; rm -rf $wt
done
echo DONE >> $out
