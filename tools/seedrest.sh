#!/bin/bash
# run the seeds that were not yet exercised by hand during development (one or two quick checks each)
out=/verif/seeded/RESULTS_rest.tsv; : > $out
run() { id=$1; shift; d=/verif/seeded/$id
  git -C /repo apply $d/patch.diff 2>/dev/null || { echo -e "$id\t$1\tPATCH-DOES-NOT-APPLY\t" >> $out; return; }
  for p in "$@"; do
    log=$(VERIF_TIMEOUT_CAP=400 /verif/check $p --tier quick --no-evidence 2>&1); rc=$?
    v=$(echo "$log" | grep -m1 "counterexample" | sed 's/^ *counterexample: //' | cut -c1-150)
    echo -e "$id\t$p\t$rc\t$v" >> $out
  done
  git -C /repo checkout -- .
}
run C15a C15; run C15b C15; run C18a C18; run C11a C11; run C07b C07; run C07a C07 C13; run C13a C13; run C13b C13
run C12b C12; run C02b C02; run C12a C12; run C17b C17; run C17a C17
echo DONE >> $out
