#!/usr/bin/env python3
"""merge seeded/RESULTS_manual.tsv + RESULTS_rest.tsv into a markdown table (stdout), update seeded/<id>/meta.json"""
import json, os, sys, glob
V = os.path.dirname(os.path.dirname(os.path.abspath(__file__)))
rows = {}
for f in ("RESULTS_manual.tsv", "RESULTS_rest.tsv", "RESULTS_r2.tsv", "RESULTS_r3.tsv", "RESULTS_r3b.tsv"):
    p = os.path.join(V, "seeded", f)
    if not os.path.exists(p): continue
    for l in open(p):
        c = l.rstrip("\n").split("\t")
        if len(c) < 3 or c[0] == "DONE": continue
        rows.setdefault(c[0], []).append((c[1], c[2], c[3] if len(c) > 3 else ""))
out = ["| seed | property | what it changes (needs) | checks run | detected | by |", "|---|---|---|---|---|---|"]
det = 0; tot = 0
for d in sorted(glob.glob(os.path.join(V, "seeded", "C*"))):
    sid = os.path.basename(d)
    mp = os.path.join(d, "meta.json")
    if not os.path.exists(mp): continue
    m = json.load(open(mp))
    rs = rows.get(sid, [])
    hit = [r for r in rs if r[1] == "1"]
    tot += 1; det += 1 if hit else 0
    summ = (m.get("summary", "") or "")[:110].replace("|", "/").replace("\n", " ")
    need = (m.get("needs_to_manifest", "") or "")[:70].replace("|", "/").replace("\n", " ")
    by = (hit[0][2] if hit else ("; ".join(r[2] for r in rs if r[2]) or "-"))[:120].replace("|", "/")
    out.append("| %s | %s | %s (%s) | %s | %s | %s |" % (sid, m.get("property", sid[:3]), summ, need, ",".join(r[0] for r in rs) or "-", "yes" if hit else ("**no**" if rs else "not run"), by))
    m["verif"] = {"checks_run": [r[0] for r in rs], "detected": bool(hit), "detail": [r[2] for r in rs if r[2]],
                  "how": "git -C /repo apply patch.diff; /verif/check <prop> --tier quick; git -C /repo checkout -- .  (tools/seedtest.sh); confirmation of the seed itself: confirm.log (tools/seedverify.sh)"}
    json.dump(m, open(mp, "w"), indent=1)
print("\n".join(out))
print("\n%d of %d seeded defects detected by the quick checks." % (det, tot))
