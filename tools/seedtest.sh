#!/bin/bash
# usage: tools/seedtest.sh <seed-id> [props...]   -- applies /verif/seeded/<id>/patch.diff to /repo, runs the checks, undoes it
id=$1; shift
d=/verif/seeded/$id
[ -f $d/patch.diff ] || { echo "no $d/patch.diff"; exit 2; }
props=${@:-$(python3 -c "import json;print(json.load(open('$d/meta.json'))['property'])")}
git -C /repo apply $d/patch.diff || { echo "patch does not apply"; exit 2; }
trap 'git -C /repo checkout -- . ' EXIT
for p in $props; do
  echo "=== seed $id vs check $p (${VERIF_TIER:-quick})"
  /verif/check $p --tier ${VERIF_TIER:-quick} --no-evidence 2>&1 | grep -E "VIOLATION|counterexample|INCONCLUSIVE|tier=" | head -${SEED_LINES:-12}
done
