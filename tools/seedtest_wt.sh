#!/bin/bash
# like seedtest.sh but applies the seeded patch in a scratch worktree and points the checks at it (VERIF_REPO),
# so /repo itself stays untouched (usable while other runs read /repo)
id=$1; shift
d=/verif/seeded/$id
wt=/tmp/wt/seedrepo_$id
git -C /repo worktree add -q --detach $wt HEAD || exit 2
cleanup() { git -C /repo worktree remove --force $wt >/dev/null 2>&1; rm -rf $wt; }
trap cleanup EXIT
git -C $wt apply $d/patch.diff || { echo "patch does not apply"; exit 2; }
props=${@:-$(python3 -c "import json;print(json.load(open('$d/meta.json'))['property'])")}
for p in $props; do
  echo "=== seed $id vs check $p (${VERIF_TIER:-quick}) [worktree]"
  VERIF_REPO=$wt /verif/check $p --tier ${VERIF_TIER:-quick} --no-evidence 2>&1 | grep -E "VIOLATION|counterexample|INCONCLUSIVE|tier=" | head -${SEED_LINES:-8}
done
