#!/bin/bash
# confirm a seeded defect in a scratch worktree of /repo HEAD: (1) patch applies, builds, 4 ctest tests pass,
# (2) demo fails with the patch, (3) demo passes without. Writes seeded/<id>/confirm.log
id=$1
d=/verif/seeded/$id
wt=/tmp/wt/verify_$id
log=$d/confirm.log
: > $log
git -C /repo worktree add -q --detach $wt HEAD >>$log 2>&1 || exit 2
cleanup() { git -C /repo worktree remove --force $wt >/dev/null 2>&1; rm -rf $wt; }
trap cleanup EXIT
res() { echo "$1" | tee -a $log; }
cd $d
# demo without patch
( cmake -G Ninja -B $wt/_build -S $wt -DCMAKE_BUILD_TYPE=RelWithDebInfo >/dev/null && cmake --build $wt/_build >/dev/null ) >>$log 2>&1
echo "== demo on unchanged tree (HEAD $(git -C /repo rev-parse --short HEAD))" >>$log
( WT=$wt timeout 600 bash ./run.sh ) >>$log 2>&1; rc0=$?
res "demo_without_patch_rc=$rc0"
git -C $wt apply $d/patch.diff >>$log 2>&1 || { res "PATCH_DOES_NOT_APPLY"; exit 1; }
rm -rf $wt/_build
( cmake -G Ninja -B $wt/_build -S $wt -DCMAKE_BUILD_TYPE=RelWithDebInfo >/dev/null && cmake --build $wt/_build >/dev/null ) >>$log 2>&1 || { res "BUILD_FAILED"; exit 1; }
ctest --test-dir $wt/_build -j8 --timeout 900 >>$log 2>&1; rct=$?
res "ctest_with_patch_rc=$rct"
echo "== demo with patch" >>$log
( WT=$wt timeout 600 bash ./run.sh ) >>$log 2>&1; rc1=$?
res "demo_with_patch_rc=$rc1"
if [ $rc0 -eq 0 ] && [ $rct -eq 0 ] && [ $rc1 -ne 0 ]; then res "CONFIRMED $id"; else res "NOT_CONFIRMED $id"; fi
