#!/usr/bin/env python3
"""setup: nothing to build (harnesses are compiled per run); verify that the tools exist"""
import shutil, sys, subprocess
ok = True
for t in ["cbmc", "goto-cc", "gcc", "python3", "cvc5", "z3"]:
    p = shutil.which(t)
    print("%-8s %s" % (t, p))
    ok = ok and p is not None
print(subprocess.run(["cbmc", "--version"], capture_output=True, text=True).stdout.strip())
sys.exit(0 if ok else 1)
